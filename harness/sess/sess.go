// Package sess drives one real calc session exactly as cmd/calc builds it and
// as node.processInput feeds it, under the simulator's control: captured
// stdout, simulated stdin, a per-instruction hook for tracing, budgets and
// injected aborts, and the machine-state accessors.
package sess

import (
	"errors"
	"fmt"
	"io"
	"os"
	"regexp"
	"strings"

	"verif/core"

	"github.com/paulsonkoly/calc/builtin"
	"github.com/paulsonkoly/calc/memory"
	"github.com/paulsonkoly/calc/parser"
	"github.com/paulsonkoly/calc/types/bytecode"
	"github.com/paulsonkoly/calc/types/compresult"
	"github.com/paulsonkoly/calc/types/dbginfo"
	"github.com/paulsonkoly/calc/types/node"
	"github.com/paulsonkoly/calc/types/value"
	"github.com/paulsonkoly/calc/vm"
)

// ---------------------------------------------------------------- capture

var (
	capFile    *os.File
	realStdout *os.File
)

// InitCapture swaps os.Stdout for a per-process capture file. Call once.
func InitCapture() error {
	if capFile != nil {
		return nil
	}
	dir := "/dev/shm"
	if st, err := os.Stat(dir); err != nil || !st.IsDir() {
		dir = ""
	}
	f, err := os.CreateTemp(dir, "simcalc-cap-*")
	if err != nil {
		return err
	}
	os.Remove(f.Name()) // anonymous: disappears with the process
	capFile = f
	realStdout = os.Stdout
	os.Stdout = f
	return nil
}

// RealStdout is the process's original stdout (for the worker's own reporting).
func RealStdout() *os.File {
	if realStdout != nil {
		return realStdout
	}
	return os.Stdout
}

// TakeOutput returns everything written to stdout since the last call.
func TakeOutput() string {
	if capFile == nil {
		return ""
	}
	n, err := capFile.Seek(0, io.SeekCurrent)
	if err != nil || n == 0 {
		return ""
	}
	buf := make([]byte, n)
	if _, err := capFile.ReadAt(buf, 0); err != nil && err != io.EOF {
		panic("capture read: " + err.Error())
	}
	if err := capFile.Truncate(0); err != nil {
		panic("capture truncate: " + err.Error())
	}
	if _, err := capFile.Seek(0, io.SeekStart); err != nil {
		panic("capture seek: " + err.Error())
	}
	return string(buf)
}

// ---------------------------------------------------------------- outcomes

// State is the machine state observable through the verif accessors.
type State struct {
	SP, Frames, Closures, Contexts, MainIP, CSLen, StackLen int
}

// AtRest reports whether the machine is back at rest given the sp before the statement.
func (s State) AtRest(spBefore int) bool {
	return s.SP == spBefore && s.Frames == 0 && s.Closures == 0 && s.Contexts == 0 && s.MainIP == s.CSLen
}

func (s State) String() string {
	return fmt.Sprintf("sp=%d frames=%d closures=%d contexts=%d mainip=%d len(CS)=%d stacklen=%d",
		s.SP, s.Frames, s.Closures, s.Contexts, s.MainIP, s.CSLen, s.StackLen)
}

// Outcome kinds.
const (
	KValue  = "value"
	KError  = "error"
	KParse  = "parse"
	KPanic  = "panic"
	KBudget = "budget"
	KAbort  = "abort" // injected abort (F3)
)

// Outcome is the result of one top-level node (or of a parse failure).
type Outcome struct {
	Kind     string
	Val      string // Display() of the value (REPL flavour) or "" (script flavour)
	Str      string // String() of the value (REPL flavour)
	Err      string // error class / parse message / panic message
	Out      string // stdout before any report
	Report   string // runtime error report (pointers normalised)
	Steps    int64  // instructions executed by this node
	Before   State
	After    State
	Phase    string // for panics: parse | compile | run
	Trace    uint64 // hash of the context-switch trace of this node
	Switches int
	FailIP   int // ip at which the VM reported the error (last hook ip), -1 if none
}

// Same compares what a user can observe: kind, value, output, error class.
func (o Outcome) Same(p Outcome) bool {
	return o.Kind == p.Kind && o.Val == p.Val && o.Out == p.Out && o.Err == p.Err
}

func (o Outcome) Brief() string {
	s := o.Kind
	switch o.Kind {
	case KValue:
		s += " " + o.Val
	default:
		s += " " + o.Err
	}
	if o.Out != "" {
		s += fmt.Sprintf(" out=%q", o.Out)
	}
	return s
}

// ErrInjected is returned by the hook for an injected abort.
var ErrInjected = errors.New("injected abort")

// ErrBudget is returned by the hook when the instruction budget is exhausted.
var ErrBudget = errors.New("step budget exceeded")

// Class maps a runtime error to its documented class.
func Class(err error) string {
	switch {
	case err == nil:
		return ""
	case errors.Is(err, value.ErrNil):
		return "nil error"
	case errors.Is(err, value.ErrType):
		return "type error"
	case errors.Is(err, value.ErrZeroDiv):
		return "division by zero"
	case errors.Is(err, value.ErrIndex):
		return "index error"
	case errors.Is(err, vm.ErrArity):
		return "arity mismatch"
	case errors.Is(err, vm.ErrConversion):
		return "conversion error"
	case errors.Is(err, ErrInjected):
		return "injected abort"
	case errors.Is(err, ErrBudget):
		return "budget"
	case strings.HasPrefix(err.Error(), "read error"):
		return "read error"
	}
	return "other: " + err.Error()
}

var ptrRE = regexp.MustCompile(`0x[0-9a-f]+`)

// NormPtr replaces pointer text.
func NormPtr(s string) string { return ptrRE.ReplaceAllString(s, "PTR") }

// ---------------------------------------------------------------- session

// Session is one calc session (one VM, many statements).
type Session struct {
	Mem *memory.Type
	CS  []bytecode.Type
	DS  []value.Type
	Dbg dbginfo.Type
	CR  compresult.Type
	VM  *vm.Type

	// knobs
	Budget  int64 // instruction budget per node (0 = default)
	AbortAt int   // abort at the k-th fallible instruction of the next node (1-based, 0 = off)

	// observations (reset per node unless noted)
	Steps        int64 // per node
	TotalSteps   int64 // per session
	Fallible     int   // fallible instructions executed by the node
	AbortFired   bool
	lastCtx      int
	trace        uint64
	switches     int
	lastIP       int
	MaxSP        map[int]int // per context id: maximum sp seen during the node
	TrackSP      bool
	Probes       map[string]int // per session, additive
	seenCtx      map[int]bool
	forked       bool
	lastStackLen map[int]int

	// OnStep, if set, is called for every instruction after the built-in bookkeeping.
	OnStep func(*vm.StepInfo)

	Dead bool // a Go panic happened; state is undefined
}

const DefaultBudget = 2_000_000

// New builds a session exactly as cmd/calc main does.
func New() *Session {
	s := &Session{Probes: map[string]int{}}
	s.Mem = memory.New()
	s.CS = []bytecode.Type{}
	s.DS = []value.Type{}
	s.Dbg = make(dbginfo.Type)
	s.CR = compresult.Type{CS: &s.CS, DS: &s.DS, Dbg: &s.Dbg}
	builtin.Load(s.CR)
	s.VM = vm.New(s.Mem, s.CR)
	vm.ResetHookState()
	// run the builtin definitions like the first Run of a real session would.
	return s
}

// Activate installs this session's hook (one session runs at a time per process).
func (s *Session) Activate() {
	vm.Hook = s.hook
}

// IsFallible reports whether an opcode can raise a runtime error from operand data.
func IsFallible(op bytecode.OpCode) bool {
	switch op &^ bytecode.TempFlag {
	case bytecode.ADD, bytecode.SUB, bytecode.MUL, bytecode.DIV, bytecode.MOD, bytecode.INC,
		bytecode.NOT, bytecode.AND, bytecode.OR, bytecode.LT, bytecode.GT, bytecode.LE, bytecode.GE,
		bytecode.EQ, bytecode.NE, bytecode.LSH, bytecode.RSH, bytecode.FLIP, bytecode.IX1, bytecode.IX2,
		bytecode.LEN, bytecode.JMPF, bytecode.JMPT, bytecode.CALL, bytecode.ATON, bytecode.READ:
		return true
	case bytecode.MOV:
		return true
	}
	return false
}

func (s *Session) hook(si *vm.StepInfo) error {
	s.Steps++
	s.lastIP = si.IP
	if si.Ctx != s.lastCtx {
		s.switches++
		s.trace = (s.trace ^ uint64(si.Ctx+1)) * 1099511628211
		s.lastCtx = si.Ctx
		if s.forked {
			if s.seenCtx[si.Ctx] {
				s.Probes["probe.fork_reused_recycled_context"]++
			}
			s.forked = false
		}
		if s.seenCtx == nil {
			s.seenCtx = map[int]bool{}
		}
		s.seenCtx[si.Ctx] = true
	}
	op := si.Instr.OpCode()
	if op == bytecode.CCONT {
		s.forked = true
	}
	if s.TrackSP {
		sp := si.Mem.SP()
		if sp > s.MaxSP[si.Ctx] {
			s.MaxSP[si.Ctx] = sp
		}
		sl := si.Mem.StackLen()
		if old, ok := s.lastStackLen[si.Ctx]; ok && sl > old {
			s.Probes["probe.stack_relocated"]++
			if si.Depth > 0 {
				s.Probes["probe.stack_relocated_with_live_frame"]++
			}
		}
		s.lastStackLen[si.Ctx] = sl
	}
	if s.OnStep != nil {
		s.OnStep(si)
	}
	budget := s.Budget
	if budget == 0 {
		budget = DefaultBudget
	}
	if s.Steps > budget {
		return ErrBudget
	}
	if IsFallible(op) {
		s.Fallible++
		if s.AbortAt > 0 && s.Fallible == s.AbortAt {
			s.AbortFired = true
			return ErrInjected
		}
	}
	return nil
}

// State reads the machine state.
func (s *Session) State() State {
	return State{
		SP:       s.Mem.SP(),
		Frames:   s.Mem.FrameDepth(),
		Closures: s.Mem.ClosureDepth(),
		Contexts: s.VM.LiveContexts(),
		MainIP:   s.VM.MainIP(),
		CSLen:    len(s.CS),
		StackLen: s.Mem.StackLen(),
	}
}

func (s *Session) resetNode() {
	s.Steps = 0
	s.Fallible = 0
	s.AbortFired = false
	s.lastCtx = 0
	s.trace = 14695981039346656037
	s.switches = 0
	s.lastIP = -1
	if s.TrackSP {
		s.MaxSP = map[int]int{}
		s.lastStackLen = map[int]int{}
	}
}

// Parse parses src with the real parser, converting panics into an outcome.
func Parse(src string) (nodes []node.Type, perr string, panicMsg string) {
	defer func() {
		if r := recover(); r != nil {
			panicMsg = fmt.Sprint(r)
		}
	}()
	t, err := parser.Parse(src)
	if err != nil {
		return nil, err.Message(), ""
	}
	return t, "", ""
}

// Submit feeds one input text the way processInput does and returns one outcome per
// top-level node (or a single parse outcome). repl selects ByteCode+Run(true)
// versus ByteCodeNoStck+Run(false).
func (s *Session) Submit(src string, repl bool) []Outcome {
	if s.Dead {
		return []Outcome{{Kind: KPanic, Err: "session dead", Phase: "dead"}}
	}
	s.Activate()
	if core.Journaling {
		core.JournalOp(src)
	}
	nodes, perr, pmsg := Parse(src)
	if pmsg != "" {
		return []Outcome{{Kind: KPanic, Err: pmsg, Phase: "parse", Out: TakeOutput()}}
	}
	if perr != "" {
		return []Outcome{{Kind: KParse, Err: perr, Before: s.State(), After: s.State()}}
	}
	outs := make([]Outcome, 0, len(nodes))
	for _, n := range nodes {
		o := s.RunNode(n, repl)
		outs = append(outs, o)
		if s.Dead {
			break
		}
	}
	return outs
}

// RunNode resolves, compiles and runs one parsed top-level node.
func (s *Session) RunNode(n node.Type, repl bool) (o Outcome) {
	s.resetNode()
	o.Before = s.State()
	o.FailIP = -1
	phase := "compile"
	defer func() {
		if r := recover(); r != nil {
			s.Dead = true
			o.Kind = KPanic
			o.Err = fmt.Sprint(r)
			o.Phase = phase
			o.Out = TakeOutput()
			o.Steps = s.Steps
			s.TotalSteps += s.Steps
		}
	}()
	e := n.STRewrite(node.SymTbl{})
	if repl {
		node.ByteCode(e, s.CR)
	} else {
		node.ByteCodeNoStck(e, s.CR)
	}
	phase = "run"
	v, err := s.VM.Run(repl)
	phase = "after"
	out := TakeOutput()
	o.Steps = s.Steps
	s.TotalSteps += s.Steps
	o.After = s.State()
	o.Trace = s.trace
	o.Switches = s.switches
	if err != nil {
		if i := strings.Index(out, "RUNTIME ERROR : "); i >= 0 {
			o.Report = NormPtr(out[i:])
			out = out[:i]
		}
		o.Out = out
		o.Err = Class(err)
		o.FailIP = s.lastIP
		switch {
		case errors.Is(err, ErrInjected):
			o.Kind = KAbort
		case errors.Is(err, ErrBudget):
			o.Kind = KBudget
		default:
			o.Kind = KError
		}
		return o
	}
	o.Kind = KValue
	o.Out = out
	if repl {
		o.Val = v.Display()
		o.Str = v.String()
	}
	return o
}

// ---------------------------------------------------------------- parse canary

// canaryTexts are fixed statements whose parse outcome must not depend on anything parsed
// earlier in the process: the parser is handed one string and keeps no session. They use the
// constructs whose alternatives fail and roll back most often (empty argument lists, empty and
// nested array literals, nested calls and parentheses, conditionals, loops, function literals).
var canaryTexts = []string{
	"f()\n",
	"[]\n",
	"g(h(), [])\n",
	"a = ((1 + 2) * (3 - f(4, [5, [6, []]])))\n",
	"if a < 2 {\nb = [a, f()]\n} else {\nb = g((a))\n}\n",
	"for i, j <- fromto(0, 3), elems([1, [2], []]) {\nwrite(toa(i) + toa(j))\n}\n",
	"k = (x, y) -> {\nz = x(y())\n(w) -> w + z\n}\n",
	"while f(g(h(1))) {\nreturn [[[]]]\n}\n",
	"1 +)\n",
	"f(,)\n",
	"q = [1, 2\n",
}

var canaryFirst string

func canaryDigest() string {
	var b strings.Builder
	for _, t := range canaryTexts {
		nodes, perr, pmsg := Parse(t)
		fmt.Fprintf(&b, "%d|%s|%s;", len(nodes), perr, pmsg)
	}
	return b.String()
}

// ParseCanary parses the canary texts and compares the outcome (node counts, error messages)
// with the outcome of the first call in this process. A difference means that parsing depends on
// what was parsed before: a failed alternative, an earlier statement or an earlier session left
// something behind in the parser.
func ParseCanary() (same bool, detail string) {
	d := canaryDigest()
	if canaryFirst == "" {
		canaryFirst = d
		return true, ""
	}
	if d == canaryFirst {
		return true, ""
	}
	return false, fmt.Sprintf("parse outcomes of the fixed canary statements (node count|error|panic per statement)\nat process start: %s\nnow:              %s", canaryFirst, d)
}
