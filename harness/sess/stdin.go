package sess

import (
	"errors"
	"io"
	"os"

	"github.com/paulsonkoly/calc/vm"
)

// SimStdin is the simulated standard input: a queue of chunks delivered one per
// Read call (split further when the caller's buffer is smaller), with optional
// injected errors in front of chosen chunks. After the last chunk it reports EOF
// until more is fed.
type SimStdin struct {
	Chunks [][]byte
	ErrAt  map[int]error // error delivered once in place of chunk i (the chunk follows on the next call)
	next   int
	off    int
	Calls  int // Read calls seen
	Errs   int // injected errors delivered
	EOFs   int
	done   map[int]bool
}

// ErrSimIO is the injected transient I/O error.
var ErrSimIO = errors.New("simulated I/O error")

func (s *SimStdin) Read(p []byte) (int, error) {
	s.Calls++
	if len(p) == 0 {
		return 0, nil
	}
	for s.next < len(s.Chunks) && len(s.Chunks[s.next]) == 0 {
		s.next++
	}
	if s.next >= len(s.Chunks) {
		if e, ok := s.ErrAt[s.next]; ok && !s.done[s.next] {
			s.mark(s.next)
			s.Errs++
			return 0, e
		}
		s.EOFs++
		return 0, io.EOF
	}
	if s.off == 0 {
		if e, ok := s.ErrAt[s.next]; ok && !s.done[s.next] {
			s.mark(s.next)
			s.Errs++
			return 0, e
		}
	}
	c := s.Chunks[s.next][s.off:]
	n := copy(p, c)
	s.off += n
	if s.off >= len(s.Chunks[s.next]) {
		s.next++
		s.off = 0
	}
	return n, nil
}

func (s *SimStdin) mark(i int) {
	if s.done == nil {
		s.done = map[int]bool{}
	}
	s.done[i] = true
}

// Feed appends a chunk (input that arrives later in the session).
func (s *SimStdin) Feed(b []byte) { s.Chunks = append(s.Chunks, append([]byte(nil), b...)) }

// UseStdin routes read() of the running process to sim.
func UseStdin(sim io.Reader) { vm.SetStdin(sim) }

var origStdin = os.Stdin

// UseRealStdinFile additionally points os.Stdin at a regular file holding content, so
// that code which bypasses the shared reader and goes back to os.Stdin is observed too.
// It returns a cleanup function.
func UseRealStdinFile(content []byte) func() {
	dir := "/dev/shm"
	if st, err := os.Stat(dir); err != nil || !st.IsDir() {
		dir = ""
	}
	f, err := os.CreateTemp(dir, "simcalc-stdin-*")
	if err != nil {
		panic(err)
	}
	name := f.Name()
	f.Write(content)
	f.Seek(0, io.SeekStart)
	os.Remove(name)
	os.Stdin = f
	return func() {
		f.Close()
		os.Stdin = origStdin
	}
}
