package props

import (
	"fmt"

	"verif/model"
	"verif/sess"
)

// MOut is the reference model's outcome for one top-level node.
type MOut struct {
	Kind string // value | error | budget
	Val  string // Display
	Str  string // String
	Out  string
	Err  string
	RE   *model.RunError
}

func (m MOut) Brief() string {
	s := m.Kind
	if m.Kind == sess.KValue {
		s += " " + m.Val
	} else {
		s += " " + m.Err
	}
	if m.Out != "" {
		s += fmt.Sprintf(" out=%q", m.Out)
	}
	return s
}

// newModel returns a model session with budgets comparable to the real one.
func newModel() *model.Interp {
	in := model.New()
	in.Budget = 3_000_000
	in.MaxDepth = 200_000
	return in
}

// modelSubmit evaluates src in the model the way Session.Submit does in the real VM.
// ok is false when the text does not parse (the caller handles that through the real side).
func modelSubmit(in *model.Interp, src string) (outs []MOut, ok bool) {
	nodes, perr, pmsg := sess.Parse(src)
	if perr != "" || pmsg != "" {
		return nil, false
	}
	for _, n := range nodes {
		v, re := in.Eval(n)
		o := MOut{Out: in.TakeOutput()}
		switch {
		case re == nil:
			o.Kind = sess.KValue
			o.Val = model.Display(v)
			o.Str = model.String(v)
		case re.Class == "budget":
			o.Kind = sess.KBudget
			o.Err = "budget"
		default:
			o.Kind = sess.KError
			o.Err = re.Class
			o.RE = re
		}
		outs = append(outs, o)
	}
	return outs, true
}

// agrees compares a real outcome with the model's: value (REPL flavour), output, error class.
func agrees(o sess.Outcome, m MOut, repl bool) bool {
	if o.Kind != m.Kind || o.Out != m.Out || o.Err != m.Err {
		return false
	}
	if repl && o.Kind == sess.KValue && o.Val != m.Val {
		return false
	}
	return true
}
