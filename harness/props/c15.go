package props

import (
	"encoding/json"
	"fmt"
	"os"
	"strings"

	"github.com/paulsonkoly/calc/parser"
	"github.com/paulsonkoly/calc/types/bytecode"
	"github.com/paulsonkoly/calc/types/node"
	"github.com/paulsonkoly/calc/types/value"

	"verif/core"
	"verif/gen"
	"verif/sess"
	"verif/tape"
)

// C15: size limits are enforced, never wrapped (capacity exhaustion as the injected fault).
type C15 struct{}

func init() { core.Register(C15{}) }

func (C15) ID() string    { return "C15" }
func (C15) Level() string { return "fault_enumeration" }
func (C15) Runs(t core.Tier) int {
	if t == core.Thorough {
		return 400_000
	}
	return 12_000
}

var c15Bounds = []int{1 << 15, 1 << 16}

const c15DeltaLo, c15DeltaHi = -14, 3

// statements under test: self-contained given the three definitions below.
var c15Defs = []string{"ga = 5", "fa = (n) -> n + 1", "gs = \"xy\"", "gr = [4, 5, 6, 7]"}
var c15Kinds = []string{
	"7 + 1",
	"gb = 5",
	"ga + 1",
	"fa(3)",
	"if ga > 3 {\n1\n} else {\n2\n}",
	"if ga > 9 {\n1\n}",
	"{\ni = 0\nwhile i < 3 {\ni = i + 1\n}\n}",
	"for i <- fromto(0, 3) {\ni\n}",
	"{\nfb = (x) -> x * 2\nfb(4)\n}",
	"gs + \"cd\"",
	"[1, 2, ga]",
	"[1, 2][1]",
	"write(5)",
	"gs[0:1]",
	"gr[1:ga - 2]",
	"\"abcd\"[1:3]",
	"[1, 2, 3][0:2]",
	"{\nfd = (a) -> a[1:#a]\nfd(gr)\n}",
	"gr[ga - 3]",
	"{\nx = 1\nx = x + 40000\nx\n}",
	"{\nx = 1\nx = 65535 + x\ny = x + 32768\nz = y + 32767\n[x, y, z]\n}",
	"[7 / 2.0, 7 / 2, 2.0 * 3, 2 * 3, 100 / 100.0, 100 / 100]",
	"[7 / 2, 7 / 2.0, ga / 5.0, ga / 5]",
	"{\nfc = (a, b) -> {\nc = a + b\nfor e <- fromto(0, c) {\nif e > 1 {\nreturn e\n}\n}\n0\n}\nfc(1, 2)\n}",
}

// c15Want: closed-form values of statement kinds whose point is the value itself (the twin without
// fill runs on the same interpreter and would share a wrong constant or a wrapped step).
var c15Want = map[string]string{
	"{\nx = 1\nx = x + 40000\nx\n}":                                       "40001",
	"{\nx = 1\nx = 65535 + x\ny = x + 32768\nz = y + 32767\n[x, y, z]\n}": "[65536, 98304, 131071]",
	"[7 / 2.0, 7 / 2, 2.0 * 3, 2 * 3, 100 / 100.0, 100 / 100]":            "[3.5, 3, 6, 6, 1, 1]",
	"[7 / 2, 7 / 2.0, ga / 5.0, ga / 5]":                                  "[3, 3.5, 1, 1]",
}

func (C15) Cases(t core.Tier) int {
	n := len(c15Bounds) * (c15DeltaHi - c15DeltaLo + 1) * len(c15Kinds) * 2
	return n + len(c15Large) + c15JumpCases(t) + len(c15JumpTpls) + c15LateCases
}
func (C15) Exhaustive(t core.Tier) bool { return t == core.Thorough } // quick samples the jump-distance table
func (C15) Rule() string {
	return "Fault = capacity exhaustion: before the statement under test the data segment is filled (with nil entries, as a long session would have filled it with constants) to B+delta for B in {2^15, 2^16}. Enumerated completely in both tiers: B x delta in -14..+3 x 24 statement kinds (literals, global name references, calls, if/while/for nil placeholders, function values, strings, arrays, indexing and slicing of globals, literals and parameters, writes, a function with a loop) x REPL/script flavour = 1728 cases, so every data-segment entry a statement creates lands on both sides of each boundary; plus 10 large-body cases (functions with 2^15-2..2^15+2 locals, bodies of about 2^15 statements) in both tiers; plus jump-distance cases: 14 templates (if taken/skipped, if-else with the long branch taken/skipped on either side, while run 0/1/3 times, function body called/not called, for body, iterator body, wide units) whose statement is made exactly L instructions long for L = limit+d, limit in {2^15-1, 2^16-1}, using locals only and no literal in the repeated unit so that only the back-patched jump distance grows: d in -3..+9 enumerated completely in thorough (364 cases), 9 (limit, d) pairs per template in quick (126 cases), each with a closed-form expected value; 14 refusal cases (a script whose middle statement cannot be encoded and begins with write(\"LEAK\"), run through the real node.Loop on a real file: nothing of the refused statement may execute and, if the session survives the refusal, the next statement must print what it prints in a fresh session); 4 late-definition cases (functions, closures, generators, loops and recursion defined and used after the session's code has passed 2^16 instructions, closed-form results). Seeded runs add generated sessions with the fill placed at a drawn point and delta in -60..+20. Oracle: either compilation is refused before any instruction of the statement runs (an error or a compile-time panic), or (i) every operand of every newly emitted instruction decodes to an in-range address (DS index in [0,len(DS)), jump target in [0,len(CS)], function entry inside CS, local index below the local count) and (ii) value, output and error class equal those of a twin session with no fill. Non-trivial = the statement's new DS entries or jumps straddle or exceed a boundary. Distinct = (boundary, delta, kind, flavour) or hash of the generated session."
}
func (C15) Assumptions() []string {
	return []string{
		"only the size-limit clause is claimed; the encode/decode round trip of every opcode x kind x address is a pure function and is asserted only on the instructions these sessions emit",
		"a compile-time panic counts as refusal (graceful reporting is C05's business)",
		"the 32-bit function entry-point field is out of reach (needs 2^32 instructions)",
		"the harness owns the DS slice (compresult.Type holds a pointer to it), so filling it is what a long session does, not a hook",
	}
}
func (C15) RealComponents() []string { return C09{}.RealComponents() }
func (C15) StubComponents() []string {
	return []string{"the long session that would fill the data segment is replaced by appending nil entries to the DS slice"}
}

type c15LargeCase struct {
	name string
	src  func() string
	want string // closed form; "" = compare with nothing (must be refused or agree with decode check)
}

func manyLocals(n int) string {
	var b strings.Builder
	b.WriteString("{\nbig = () -> {\n")
	for i := 0; i < n; i++ {
		fmt.Fprintf(&b, "%s = %d\n", gen.PadName(i), i)
	}
	fmt.Fprintf(&b, "%s + %s\n}\nbig()\n}", gen.PadName(0), gen.PadName(n-1))
	return b.String()
}

func longBody(head, tail string, n int) string {
	var b strings.Builder
	b.WriteString(head)
	for i := 0; i < n; i++ {
		b.WriteString("x = x + 1\n")
	}
	b.WriteString(tail)
	return b.String()
}

var c15Large = []c15LargeCase{
	{"locals-32766", func() string { return manyLocals(32766) }, "32765"},
	{"if-body-32760", func() string { return longBody("{\nx = 0\nif x == 0 {\n", "}\nx\n}", 32760) }, "32760"},
	{"locals-32767", func() string { return manyLocals(32767) }, "32766"},
	{"locals-32768", func() string { return manyLocals(32768) }, "32767"},
	{"locals-32770", func() string { return manyLocals(32770) }, "32769"},
	{"if-body-32770", func() string { return longBody("{\nx = 0\nif x == 0 {\n", "}\nx\n}", 32770) }, "32770"},
	{"if-false-body-32770", func() string { return longBody("{\nx = 0\nif x == 1 {\n", "}\nx\n}", 32770) }, "0"},
	{"while-body-32770", func() string { return longBody("{\nx = 0\nwhile x == 0 {\n", "}\nx\n}", 32770) }, "32770"},
	{"function-body-32770", func() string { return longBody("{\nf = () -> {\nx = 0\n", "x\n}\nf()\n}", 32770) }, "32770"},
	{"ifelse-32770", func() string {
		return longBody("{\nx = 0\nif x == 1 {\nx = 5\n} else {\n", "}\nx\n}", 32770)
	}, "32770"},
}

// decodeCheck verifies that every operand of CS[from:] decodes to an in-range address.
func decodeCheck(s *sess.Session, from int) string {
	cs, ds := s.CS, s.DS
	for ip := from; ip < len(cs); ip++ {
		in := cs[ip]
		op := in.OpCode()
		chk := func(kind uint64, addr int, sel int) string {
			switch kind {
			case bytecode.AddrDS:
				if addr < 0 || addr >= len(ds) {
					return fmt.Sprintf("ip %d %v: DS operand %d decodes to %d, len(DS)=%d", ip, op, sel, addr, len(ds))
				}
			case bytecode.AddrGbl:
				if addr < 0 || addr >= len(ds) {
					return fmt.Sprintf("ip %d %v: GBL operand %d decodes to %d, len(DS)=%d", ip, op, sel, addr, len(ds))
				}
				if _, ok := ds[addr].ToString(); !ok {
					return fmt.Sprintf("ip %d %v: GBL operand %d -> DS[%d] is not a name", ip, op, sel, addr)
				}
			case bytecode.AddrLcl, bytecode.AddrCls:
				if addr < 0 {
					return fmt.Sprintf("ip %d %v: local/closure operand %d decodes to %d", ip, op, sel, addr)
				}
			}
			return ""
		}
		if m := chk(in.Src0(), in.Src0Addr(), 0); m != "" {
			return m
		}
		if m := chk(in.Src1(), in.Src1Addr(), 1); m != "" {
			return m
		}
		if m := chk(in.Src2(), in.Src2Addr(), 2); m != "" {
			return m
		}
		jump := func(off int) string {
			if t := ip + off; t < 0 || t > len(cs) {
				return fmt.Sprintf("ip %d %v: jump offset %d leaves the code segment (len %d)", ip, op, off, len(cs))
			}
			return ""
		}
		switch op {
		case bytecode.JMP, bytecode.CCONT:
			if m := jump(in.Src0Addr()); m != "" {
				return m
			}
		case bytecode.JMPF, bytecode.JMPT:
			if m := jump(in.Src1Addr()); m != "" {
				return m
			}
		case bytecode.FUNC:
			if in.Src0() == bytecode.AddrDS {
				a := in.Src0Addr()
				if a >= 0 && a < len(ds) {
					if f, ok := ds[a].ToFunction(); ok && (f.Node < 0 || f.Node > len(cs)) {
						return fmt.Sprintf("ip %d FUNC: entry point %d outside the code segment", ip, f.Node)
					}
				}
			}
		}
	}
	return ""
}

func fillDS(s *sess.Session, to int) {
	for len(s.DS) < to {
		s.DS = append(s.DS, value.Nil)
	}
}

// c15One: defs, fill to target, run stmt; compare with a twin without fill.
func c15One(defs []string, target int, stmt string, repl bool, r *core.Result, h *Hist) {
	A, B := sess.New(), sess.New()
	A.Budget, B.Budget = 5_000_000, 5_000_000
	for _, d := range defs {
		for _, s := range []*sess.Session{A, B} {
			o := s.Submit(d+"\n", repl)
			if o[len(o)-1].Kind != sess.KValue {
				r.Discard = "definition failed: " + o[len(o)-1].Brief()
				return
			}
		}
	}
	before := len(A.DS)
	if target > 0 {
		fillDS(A, target)
	}
	csBefore := len(A.CS)
	dsBefore := len(A.DS)
	oa := A.Submit(stmt+"\n", repl)
	ob := B.Submit(stmt+"\n", repl)
	r.Statements++
	a, b := oa[len(oa)-1], ob[len(ob)-1]
	r.Instructions += a.Steps
	h.Notes = fmt.Sprintf("DS had %d entries after the definitions, filled to %d, statement added %d entries and %d instructions", before, dsBefore, len(A.DS)-dsBefore, len(A.CS)-csBefore)
	if b.Kind == sess.KPanic {
		r.Discard = "twin without fill panicked: " + b.Err
		return
	}
	if a.Kind == sess.KPanic && (a.Phase == "compile" || a.Phase == "parse") {
		r.Inc("refused_at_compile_time", 1)
		if a.Steps > 0 {
			r.Violation = &core.Violation{Clause: "executed-before-refusal", Detail: fmt.Sprintf("%d instructions ran before the compile-time refusal", a.Steps), History: h}
		}
		return
	}
	if m := decodeCheck(A, csBefore); m != "" {
		r.Violation = &core.Violation{Clause: "operand-wrapped", Detail: m + " (statement was accepted and executed: " + a.Brief() + ")", History: h}
		return
	}
	if a.Kind == sess.KPanic {
		r.Violation = &core.Violation{Clause: "run-panic", Detail: fmt.Sprintf("accepted at compile time, then Go panic while running: %s", a.Err), History: h}
		return
	}
	if want, ok := c15Want[stmt]; ok && repl && a.Kind == sess.KValue && a.Val != want {
		r.Violation = &core.Violation{Clause: "constant-or-step-value", Detail: fmt.Sprintf("%s gave %s, want %s", trunc(stmt, 60), a.Val, want), History: h}
		return
	}
	if !a.Same(b) {
		r.Violation = &core.Violation{Clause: "differs-from-unfilled-twin", Detail: fmt.Sprintf("with the data segment at %d entries: %s | with no fill: %s", dsBefore, a.Brief(), b.Brief()), History: h}
		return
	}
	r.Inc("accepted_and_equal", 1)
}

func (C15) RunCase(i int) core.Result {
	var r core.Result
	nd := c15DeltaHi - c15DeltaLo + 1
	table := len(c15Bounds) * nd * len(c15Kinds) * 2
	if i >= table+len(c15Large) {
		j := i - table - len(c15Large)
		// numbering (the same in both tiers): quick jump sample, refusal cases, late-definition
		// cases, then (thorough only) the full jump table
		nq := len(c15JumpTpls) * len(c15JumpQuick)
		switch {
		case j < nq:
			return c15JumpCase(j)
		case j < nq+len(c15JumpTpls):
			return c15RefusalCase(j - nq)
		case j < nq+len(c15JumpTpls)+c15LateCases:
			return c15LateCase(j - nq - len(c15JumpTpls))
		case j < nq+len(c15JumpTpls)+c15LateCases+len(c15JumpTpls)*2*len(c15JumpDeltas):
			return c15JumpCase(j - len(c15JumpTpls) - c15LateCases)
		}
		return core.Result{Discard: "no such case"}
	}
	if i >= table {
		lc := c15Large[i-table]
		h := &Hist{Flavour: "repl", Notes: "large body: " + lc.name}
		src := lc.src()
		h.add(trunc(src, 200) + " ...")
		s := sess.New()
		s.Budget = 50_000_000
		cs0 := len(s.CS)
		o := s.Submit(src+"\n", true)[0]
		r.Statements++
		r.Instructions += o.Steps
		r.NonTrivial = true
		r.Key = uint64(core.NewHash().Str(lc.name))
		r.TraceHash = uint64(core.NewHash().Str(o.Kind).Str(o.Val))
		r.Sample = h
		r.Inc("large."+lc.name, 1)
		switch {
		case o.Kind == sess.KPanic && (o.Phase == "compile" || o.Phase == "parse"):
			r.Inc("refused_at_compile_time", 1)
			if o.Steps > 0 {
				r.Violation = &core.Violation{Clause: "executed-before-refusal", Detail: "instructions ran before refusal", History: h}
			}
		case decodeCheck(s, cs0) != "":
			r.Violation = &core.Violation{Clause: "operand-wrapped", Detail: decodeCheck(s, cs0) + " (accepted: " + o.Brief() + ")", History: h}
		case o.Kind == sess.KPanic:
			r.Violation = &core.Violation{Clause: "run-panic", Detail: o.Err, History: h}
		case o.Kind != sess.KValue || o.Val != lc.want:
			r.Violation = &core.Violation{Clause: "large-body-result", Detail: fmt.Sprintf("%s: got %s, want %s", lc.name, o.Brief(), lc.want), History: h}
		default:
			r.Inc("accepted_and_equal", 1)
		}
		return r
	}
	repl := i%2 == 0
	i /= 2
	kind := i % len(c15Kinds)
	i /= len(c15Kinds)
	delta := c15DeltaLo + i%nd
	i /= nd
	bound := c15Bounds[i]
	h := &Hist{Flavour: flavour(repl)}
	for _, d := range c15Defs {
		h.add(d)
	}
	h.Steps = append(h.Steps, Step{Src: c15Kinds[kind], Fault: fmt.Sprintf("F9: data segment filled to %d%+d before this statement", bound, delta)})
	c15One(c15Defs, bound+delta, c15Kinds[kind], repl, &r, h)
	r.NonTrivial = true
	r.Key = uint64(core.NewHash().Int(bound).Int(delta).Int(kind).Str(h.Flavour))
	r.TraceHash = r.Key ^ uint64(len(r.Stats))
	r.Sample = h
	r.Inc(fmt.Sprintf("F9.fill_near_2^%d", map[int]int{1 << 15: 15, 1 << 16: 16}[bound]), 1)
	return r
}

// Run: generated sessions with the fill at a drawn point.
func (C15) Run(tp *tape.Tape) core.Result {
	var r core.Result
	sw := drawSwarm(tp)
	g := newGen(tp, sw)
	defs := buildDefs(g, sw)
	top := g.TopScope(false)
	var pre []string
	for i := 0; i < tp.Draw(3); i++ {
		pre = append(pre, g.TopStmt(top)...)
	}
	stmt := strings.Join(g.TopStmt(top), "\n")
	if strings.Count(stmt, "\n") > 0 && !strings.HasPrefix(stmt, "{") {
		stmt = "{\n" + stmt + "\n}"
	}
	bound := c15Bounds[tp.Draw(2)]
	delta := tp.Draw(81) - 60
	h := &Hist{Flavour: flavour(sw.Repl)}
	all := append(append([]string{}, defs...), pre...)
	for _, d := range all {
		h.add(d)
	}
	h.Steps = append(h.Steps, Step{Src: stmt, Fault: fmt.Sprintf("F9: data segment filled to %d%+d before this statement", bound, delta)})
	c15One(all, bound+delta, stmt, sw.Repl, &r, h)
	if strings.HasPrefix(r.Discard, "definition failed") {
		// generated top-level statements may legitimately fail (e.g. nil after nothing assigned); not interesting here
		r.Discard = "a statement before the fill did not evaluate"
	}
	r.NonTrivial = r.Discard == ""
	r.Key = uint64(core.NewHash().Int(bound).Int(delta).Str(shapeOf(stmt)).Str(h.Flavour))
	r.TraceHash = r.Key
	r.Sample = h
	r.Inc("F9.generated_session_fill", 1)
	return r
}

// RunScript: Steps = definitions then the statement (last); Want[0] = fill target.
func (C15) RunScript(raw json.RawMessage) core.Result {
	var r core.Result
	sc, h, err := parseScript(raw)
	if err != nil || len(sc.Want) != 1 || len(sc.Steps) == 0 {
		r.Discard = "bad script"
		return r
	}
	var target int
	fmt.Sscan(sc.Want[0], &target)
	c15One(sc.Steps[:len(sc.Steps)-1], target, sc.Steps[len(sc.Steps)-1], sc.Flavour == "repl", &r, h)
	return r
}

// ---- jump-distance cases: a body of n one-line units sized so that the back-patched jump over it
// lands on each side of the 2^15 and 2^16 limits of the operand field.

type c15JumpTpl struct {
	name       string
	head, tail string
	unit       string
	want       func(n int) string
}

// Every template is one function definition plus its call; the body works on locals and uses no
// literals inside the repeated unit, so the data segment stays small and only the jump distance
// grows. flip(n) is the value of x after n units `x = ~x`.
func flip(n int) string {
	if n%2 == 0 {
		return "0"
	}
	return "-1"
}

const c15Unit = "x = ~x\n"

var c15JumpTpls = []c15JumpTpl{
	{"if-true", "{\nf = () -> {\nx = 0\nk = 0\nif k == 0 {\n", "}\nx\n}\nf()\n}", c15Unit, flip},
	{"if-false", "{\nf = () -> {\nx = 0\nk = 0\nif k == 1 {\n", "}\nx\n}\nf()\n}", c15Unit, func(int) string { return "0" }},
	{"ifelse-long-else-taken", "{\nf = () -> {\nx = 0\nk = 0\nif k == 1 {\nx = 5\n} else {\n", "}\nx\n}\nf()\n}", c15Unit, flip},
	{"ifelse-long-else-skipped", "{\nf = () -> {\nx = 0\nk = 0\nif k == 0 {\nx = 5\n} else {\n", "}\nx\n}\nf()\n}", c15Unit, func(int) string { return "5" }},
	{"ifelse-long-then-taken", "{\nf = () -> {\nx = 0\nk = 0\nif k == 0 {\n", "} else {\nx = 5\n}\nx\n}\nf()\n}", c15Unit, flip},
	{"ifelse-long-then-skipped", "{\nf = () -> {\nx = 0\nk = 0\nif k == 1 {\n", "} else {\nx = 5\n}\nx\n}\nf()\n}", c15Unit, func(int) string { return "5" }},
	{"while-once", "{\nf = () -> {\nx = 0\nk = 0\nwhile k == 0 {\nk = 1\n", "}\nx\n}\nf()\n}", c15Unit, flip},
	{"while-never", "{\nf = () -> {\nx = 0\nk = 0\nwhile k == 1 {\n", "}\nx\n}\nf()\n}", c15Unit, func(int) string { return "0" }},
	{"while-three-times", "{\nf = () -> {\nx = 0\nk = 0\nwhile k < 3 {\nk = k + 1\n", "}\nx\n}\nf()\n}", c15Unit, func(n int) string { return flip(3 * n) }},
	{"function-body", "{\nf = () -> {\nx = 0\n", "x\n}\nf()\n}", c15Unit, flip},
	{"function-body-not-called", "{\nk = 7\nf = () -> {\nx = 0\n", "x\n}\nk\n}", c15Unit, func(int) string { return "7" }},
	{"for-body", "{\nf = () -> {\nx = 0\nfor i <- fromto(0, 1) {\n", "}\nx\n}\nf()\n}", c15Unit, flip},
	{"for-iterator-body", "{\ng = () -> {\nx = 0\n", "yield x\n}\nf = () -> {\ns = 9\nfor e <- g() {\ns = e\n}\ns\n}\nf()\n}", c15Unit, flip},
	{"if-true-wide-units", "{\nf = () -> {\nx = 0\nk = 0\nif k == 0 {\n", "}\nx\n}\nf()\n}", "x = ~(~(~x))\n", flip},
}

var c15JumpDeltas = []int{-3, -2, -1, 0, 1, 2, 3, 4, 5, 6, 7, 8, 9}

// quick samples the table (the large programs cost seconds each); thorough enumerates it.
var c15JumpQuick = [][2]int{{0, 0}, {0, 2}, {0, 3}, {0, 4}, {0, 5}, {0, 6}, {0, 8}, {1, 2}, {1, 6}}

func c15JumpCases(t core.Tier) int {
	if t == core.Thorough {
		return len(c15JumpTpls)*len(c15JumpQuick) + len(c15JumpTpls)*2*len(c15JumpDeltas)
	}
	return len(c15JumpTpls) * len(c15JumpQuick)
}

// c15Pad is a one-instruction statement (a local-to-local move) that leaves x alone; pads fix the
// parity of the body length so that every instruction count around the limit is reached.
const c15Pad = "y = x\n"

func c15JumpSrc(t c15JumpTpl, n, pads int) string {
	return t.head + strings.Repeat(c15Pad, pads) + strings.Repeat(t.unit, n) + t.tail
}

// c15UnitCost compiles the template at small sizes and returns instructions per unit, per pad,
// and the instruction count of the version with 10 units and no pad.
func c15UnitCost(t c15JumpTpl) (per, pad, base10 int, ok bool) {
	size := func(n, p int) int {
		s := sess.New()
		c0 := len(s.CS)
		o := s.Submit(c15JumpSrc(t, n, p)+"\n", true)
		if len(o) != 1 || o[0].Kind != sess.KValue {
			return -1
		}
		return len(s.CS) - c0
	}
	a, b, c := size(10, 0), size(20, 0), size(10, 1)
	if a < 0 || b <= a || (b-a)%10 != 0 || c <= a {
		return 0, 0, 0, false
	}
	return (b - a) / 10, c - a, a, true
}

func c15JumpCase(i int) core.Result {
	var r core.Result
	var d, li int
	if i < len(c15JumpTpls)*len(c15JumpQuick) {
		// the quick sample comes first in the numbering, so quick case i and thorough case i agree
		q := c15JumpQuick[i%len(c15JumpQuick)]
		li, d = q[0], q[1]
		i /= len(c15JumpQuick)
	} else {
		i -= len(c15JumpTpls) * len(c15JumpQuick)
		d = c15JumpDeltas[i%len(c15JumpDeltas)]
		i /= len(c15JumpDeltas)
		li = i % 2
		i /= 2
	}
	limit := []int{1<<15 - 1, 1<<16 - 1}[li]
	t := c15JumpTpls[i%len(c15JumpTpls)]
	h := &Hist{Flavour: "repl"}
	r.NonTrivial = true
	r.Key = uint64(core.NewHash().Str(t.name).Int(limit).Int(d))
	r.Sample = h
	per, pad, base10, ok := c15UnitCost(t)
	if !ok {
		r.Discard = "template " + t.name + " did not evaluate at small sizes"
		return r
	}
	// The whole statement is made exactly limit+d instructions long (units of `per` instructions
	// plus one-instruction pads for the remainder). The jump over the body is a few instructions
	// shorter than the statement, so the deltas -3..+9 put the jump distance on both sides of
	// the limit, one instruction at a time, whatever the template's overhead.
	total := limit + d
	pads := 0
	for (total-(base10-10*per)-pads*pad)%per != 0 {
		pads++
	}
	n := (total - (base10 - 10*per) - pads*pad) / per
	src := c15JumpSrc(t, n, pads)
	h.Notes = fmt.Sprintf("jump-distance case %s: %d units of %d instruction(s) and %d pad(s) of %d, statement is %d instructions, operand limit %d", t.name, n, per, pads, pad, total, limit)
	h.add(trunc(src, 160) + " ...")
	s := sess.New()
	s.Budget = 50_000_000
	cs0 := len(s.CS)
	o := s.Submit(src+"\n", true)[0]
	r.Statements++
	r.Instructions += o.Steps
	r.TraceHash = uint64(core.NewHash().Str(o.Kind).Str(o.Val))
	r.Inc(fmt.Sprintf("F9.jump_distance_near_%d.%s", limit+1, t.name), 1)
	want := t.want(n)
	switch {
	case o.Kind == sess.KPanic && (o.Phase == "compile" || o.Phase == "parse"):
		r.Inc("refused_at_compile_time", 1)
		if o.Steps > 0 {
			r.Violation = &core.Violation{Clause: "executed-before-refusal", Detail: "instructions ran before refusal", History: h}
		}
	case decodeCheck(s, cs0) != "":
		r.Violation = &core.Violation{Clause: "operand-wrapped", Detail: decodeCheck(s, cs0) + " (accepted: " + o.Brief() + ")", History: h}
	case o.Kind == sess.KPanic:
		r.Violation = &core.Violation{Clause: "run-panic", Detail: o.Err, History: h}
	case o.Kind != sess.KValue || o.Val != want:
		r.Violation = &core.Violation{Clause: "large-body-result", Detail: fmt.Sprintf("%s with %d units: got %s, want %s", t.name, n, o.Brief(), want), History: h}
	default:
		r.Inc("accepted_and_equal", 1)
	}
	return r
}

// ---- a refused statement must leave nothing behind (through the real read-eval loop)

// c15RefusalCase: a script whose second statement is too large to be encoded (its jump over a
// body of locals-only units exceeds the operand field) and starts with write("LEAK"), followed by
// an ordinary statement, runs through node.Loop on a real file. Refusal may end the interpreter (a
// compile-time panic does) or be reported and survived; either way nothing of the refused
// statement may execute, and whatever runs afterwards must behave as if it had never been seen.
func c15RefusalCase(i int) core.Result {
	var r core.Result
	t := c15JumpTpls[i]
	h := &Hist{Flavour: "script"}
	r.NonTrivial = true
	r.Key = uint64(core.NewHash().Str("refusal").Str(t.name))
	r.Sample = h
	per, pad, base10, ok := c15UnitCost(t)
	if !ok {
		r.Discard = "template did not evaluate at small sizes"
		return r
	}
	total := 1<<15 + 40
	pads := 0
	for (total-(base10-10*per)-pads*pad)%per != 0 {
		pads++
	}
	n := (total - (base10 - 10*per) - pads*pad) / per
	big := "{\nwrite(\"LEAK\")\n" + strings.TrimPrefix(c15JumpSrc(t, n, pads), "{\n")
	h.add("write(\"start;\")")
	h.add(trunc(big, 120) + " ...")
	h.add("write(toa(7 + 1))")
	h.Notes = fmt.Sprintf("refusal case %s: the middle statement is %d instructions long (limit 32767) and begins with write(\"LEAK\")", t.name, total)
	f, err := os.CreateTemp(shmDir(), "simcalc-c15-*")
	if err != nil {
		r.Discard = "tempfile"
		return r
	}
	name := f.Name()
	f.WriteString("write(\"start;\")\n" + big + "\nwrite(toa(7 + 1))\n")
	f.Close()
	defer os.Remove(name)
	died := ""
	var steps int64
	func() {
		defer func() {
			if p := recover(); p != nil {
				died = fmt.Sprint(p)
			}
		}()
		s := sess.New()
		s.Budget = 5_000_000
		s.Activate()
		fr := node.NewFReader(name)
		defer fr.Close()
		defer func() { steps = s.Steps }()
		node.Loop(fr, parser.Type{}, s.VM, false)
	}()
	out := sess.TakeOutput()
	r.Statements += 3
	r.Instructions += steps
	r.TraceHash = uint64(core.NewHash().Str(out).Str(died))
	r.Inc("F9.refused_statement_followed_by_more."+t.name, 1)
	switch {
	case out == "start;LEAK8" && died == "":
		// not refused at all, and everything ran in order: an interpreter whose limits lie further out
		// (the jump-distance table checks the values computed at these sizes)
		r.Inc("accepted_and_equal", 1)
	case strings.Contains(out, "LEAK"):
		r.Violation = &core.Violation{Clause: "refused-statement-executed", Detail: fmt.Sprintf("the statement was refused or broke off, yet its first instruction ran: output %q, loop ended with %q", trunc(out, 300), died), History: h}
	case !strings.HasPrefix(out, "start;"):
		r.Violation = &core.Violation{Clause: "refusal-lost-earlier-output", Detail: fmt.Sprintf("output %q", trunc(out, 300)), History: h}
	case died != "":
		r.Inc("refused_at_compile_time", 1) // the interpreter ended at the refusal: nothing ran
		if strings.Contains(out[len("start;"):], "8") {
			r.Violation = &core.Violation{Clause: "refusal-order", Detail: fmt.Sprintf("output %q although the loop ended with %q", trunc(out, 300), died), History: h}
		}
	case !strings.HasSuffix(out, "8"):
		r.Violation = &core.Violation{Clause: "statement-after-refusal-differs", Detail: fmt.Sprintf("the session went on after the refusal but the next statement printed %q, want it to end in \"8\"", trunc(out, 300)), History: h}
	default:
		r.Inc("refusal_reported_and_survived", 1)
	}
	return r
}

// ---- definitions beyond instruction 2^16

const c15LateCases = 10

// c15LateCase: sessions that are more than 2^16 instructions long before small functions,
// closures, generators and loops are defined and used: entry points, jump targets and context
// forks beyond the 16-bit range must work (they are not operands) or be refused.
// c15LongSession: many small statements one after another, so that jump placeholders are emitted
// and patched at every position of a code segment that keeps being reallocated as it grows: loops
// never entered, branches not taken, empty iterators, functions defined and called. Every statement
// has a closed-form value.
func c15LongSession(variant int) core.Result {
	var r core.Result
	h := &Hist{Flavour: flavour(variant == 0), Notes: "long session: 1200 small statements whose jumps are patched while the code segment grows"}
	r.NonTrivial = true
	r.Key = uint64(core.NewHash().Str("long-session").Int(variant))
	r.Sample = h
	s := sess.New()
	repl := variant == 0
	for k := 0; k < 1200; k++ {
		var src, want string
		switch k % 6 {
		case 0:
			src, want = fmt.Sprintf("{\nx = %d\nwhile x < 0 {\nx = x + 1\n}\nx\n}", k), fmt.Sprint(k)
		case 1:
			src, want = fmt.Sprintf("{\nx = %d\nif x < 0 {\nx = 0 - 1\n}\nx + 1\n}", k), fmt.Sprint(k+1)
		case 2:
			src, want = fmt.Sprintf("{\nx = %d\nfor e <- fromto(3, 3) {\nx = 0\n}\nx\n}", k), fmt.Sprint(k)
		case 3:
			src, want = fmt.Sprintf("{\nf = (n) -> if n < 0 {\n0\n} else {\nn + %d\n}\nf(1)\n}", k), fmt.Sprint(k+1)
		case 4:
			src, want = fmt.Sprintf("{\nx = 0\nfor a, b <- fromto(0, 2), fromto(%d, %d) {\nx = x + b\n}\nx\n}", k, k+2), fmt.Sprint(2*k+1)
		default:
			src, want = fmt.Sprintf("{\nx = %d\ni = 0\nwhile i < 2 {\nif i == 5 {\nx = 0\n} else {\nx = x + 1\n}\ni = i + 1\n}\nx\n}", k), fmt.Sprint(k+2)
		}
		cs0 := len(s.CS)
		o := s.Submit(src+"\n", repl)[0]
		r.Statements++
		r.Instructions += o.Steps
		if o.Kind == sess.KPanic && o.Phase == "compile" {
			r.Inc("refused_at_compile_time", 1)
			return r
		}
		if m := decodeCheck(s, cs0); m != "" {
			h.add(src)
			r.Violation = &core.Violation{Clause: "operand-wrapped", Detail: m, History: h}
			return r
		}
		bad := o.Kind != sess.KValue || (repl && o.Val != want)
		if bad {
			h.add(src)
			r.Violation = &core.Violation{Clause: "long-session", Detail: fmt.Sprintf("statement %d of the session (compiled at instruction %d): got %s, want %s\n%s", k+1, cs0, o.Brief(), want, trunc(o.Report, 300)), History: h}
			return r
		}
	}
	r.Inc("F9.long_session_statements", 1200)
	r.Inc("accepted_and_equal", 1)
	r.TraceHash = r.Key
	return r
}

// c15BigText: one top-level statement of 70 KiB / 200 KiB of source (a function that is defined and
// never called, body lines flat or indented) between two ordinary statements, through node.Loop:
// the statement either works as a whole (nothing of its body runs, because it is never called) or is
// refused as a whole; in no case may part of its text be taken for top-level statements.
func c15BigText(variant int) core.Result {
	var r core.Result
	kb := []int{70, 200}[variant/2]
	indent := []string{"", "  "}[variant%2]
	h := &Hist{Flavour: "script", Notes: fmt.Sprintf("a %d KiB function definition that is never called, body lines indented by %q", kb, indent)}
	r.NonTrivial = true
	r.Key = uint64(core.NewHash().Str("big-text").Int(variant))
	r.Sample = h
	var b strings.Builder
	b.WriteString("write(\"start;\")\nbig = (q) -> {\n")
	for n := 0; b.Len() < kb<<10; n++ {
		fmt.Fprintf(&b, "%sq = ~q\n%swrite(\"LEAK\")\n", indent, indent)
	}
	b.WriteString("}\nwrite(\"end\")\n")
	h.add("write(\"start;\")")
	h.add("big = (q) -> { ... " + fmt.Sprint(b.Len()) + " bytes ... }")
	h.add("write(\"end\")")
	f, err := os.CreateTemp(shmDir(), "simcalc-c15-*")
	if err != nil {
		r.Discard = "tempfile"
		return r
	}
	name := f.Name()
	f.WriteString(b.String())
	f.Close()
	defer os.Remove(name)
	died := ""
	func() {
		defer func() {
			if p := recover(); p != nil {
				died = fmt.Sprint(p)
			}
		}()
		s := sess.New()
		s.Budget = 5_000_000
		s.Activate()
		fr := node.NewFReader(name)
		defer fr.Close()
		node.Loop(fr, parser.Type{}, s.VM, false)
	}()
	out := collapseReports(sess.TakeOutput())
	r.Statements += 3
	r.TraceHash = uint64(core.NewHash().Str(out).Str(died))
	r.Inc("F9.big_text_statement", 1)
	switch {
	case strings.Contains(out, "LEAK"):
		r.Violation = &core.Violation{Clause: "part-of-statement-executed", Detail: fmt.Sprintf("body lines of a function that is never called ran as statements: output %q, loop ended with %q", trunc(out, 200), died), History: h}
	case !strings.HasPrefix(out, "start;"):
		r.Violation = &core.Violation{Clause: "refusal-lost-earlier-output", Detail: fmt.Sprintf("output %q", trunc(out, 200)), History: h}
	case died != "":
		r.Inc("refused_at_compile_time", 1)
	case out == "start;end":
		r.Inc("accepted_and_equal", 1)
	case strings.HasSuffix(out, "end"):
		r.Inc("refusal_reported_and_survived", 1) // something was printed about the big statement; the session went on
	default:
		r.Violation = &core.Violation{Clause: "statement-after-refusal-differs", Detail: fmt.Sprintf("output %q", trunc(out, 200)), History: h}
	}
	return r
}

func c15LateCase(i int) core.Result {
	if i >= 6 {
		return c15BigText(i - 6)
	}
	if i >= 4 {
		return c15LongSession(i - 4)
	}
	var r core.Result
	h := &Hist{Flavour: "repl", Notes: "late-definition case: three functions of about 23000 instructions each come first"}
	r.NonTrivial = true
	r.Key = uint64(core.NewHash().Str("late").Int(i))
	r.Sample = h
	s := sess.New()
	s.Budget = 50_000_000
	bigN := 11500
	var defs []string
	for k := 0; k < 3; k++ {
		defs = append(defs, fmt.Sprintf("big%c = () -> {\nx = 0\n%sx\n}", 'a'+k, strings.Repeat(c15Unit, bigN+k)))
	}
	type step struct{ src, want string }
	var steps []step
	switch i {
	case 0:
		steps = []step{{"inc = (n) -> n + 1", "function"}, {"inc(41)", "42"}, {"biga()", flip(bigN)}, {"bigc()", flip(bigN + 2)}, {"inc(inc(1))", "3"}}
	case 1:
		steps = []step{{"mk = (k) -> (x) -> x + k", "function"}, {"hh = mk(2)", "function"}, {"hh(3)", "5"}, {"bigb()", flip(bigN + 1)}, {"hh(4)", "6"}}
	case 2:
		steps = []step{{"gg = (n) -> {\ni = 0\nwhile i < n {\nyield i\ni = i + 1\n}\n}", "function"},
			{"us = (n) -> {\ns = 0\nfor e <- gg(n) {\ns = s + e\n}\ns\n}", "function"}, {"us(5)", "10"},
			{"{\nt = 0\nfor a, b <- gg(3), fromto(5, 9) {\nt = t + a * b\n}\nt\n}", "20"}}
	default:
		steps = []step{{"fr = (n) -> if n <= 0 {\n0\n} else {\nn + fr(n - 1)\n}", "function"}, {"fr(10)", "55"},
			{"{\nw = 0\nk = 0\nwhile k < 4 {\nif k % 2 == 0 {\nw = w + k\n} else {\nw = w - 1\n}\nk = k + 1\n}\nw\n}", "0"}, {"biga() + fr(3)", fmt.Sprint(map[string]int{"0": 0, "-1": -1}[flip(bigN)] + 6)}}
	}
	for _, d := range defs {
		h.add(trunc(d, 60) + " ...")
		o := s.Submit(d+"\n", true)[0]
		r.Statements++
		if o.Kind == sess.KPanic && o.Phase == "compile" {
			r.Inc("refused_at_compile_time", 1)
			return r
		}
		if o.Kind != sess.KValue {
			r.Violation = &core.Violation{Clause: "late-definition", Detail: "large function definition: " + o.Brief(), History: h}
			return r
		}
	}
	if len(s.CS) <= 1<<16 {
		r.Discard = fmt.Sprintf("session is only %d instructions long", len(s.CS))
		return r
	}
	r.Inc("F9.definitions_beyond_instruction_65536", 1)
	for _, st := range steps {
		h.add(st.src)
		cs0 := len(s.CS)
		o := s.Submit(st.src+"\n", true)[0]
		r.Statements++
		r.Instructions += o.Steps
		switch {
		case o.Kind == sess.KPanic && o.Phase == "compile":
			r.Inc("refused_at_compile_time", 1)
			return r
		case decodeCheck(s, cs0) != "":
			r.Violation = &core.Violation{Clause: "operand-wrapped", Detail: decodeCheck(s, cs0), History: h}
			return r
		case o.Kind == sess.KPanic:
			r.Violation = &core.Violation{Clause: "run-panic", Detail: o.Err, History: h}
			return r
		case o.Kind != sess.KValue || o.Val != st.want:
			r.Violation = &core.Violation{Clause: "late-definition", Detail: fmt.Sprintf("%s (compiled at instruction %d): got %s, want %s", trunc(st.src, 60), cs0, o.Brief(), st.want), History: h}
			return r
		}
	}
	r.Inc("accepted_and_equal", 1)
	r.TraceHash = r.Key
	return r
}
