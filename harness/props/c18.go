package props

import (
	"encoding/json"
	"fmt"
	"strings"

	"verif/c18a"
	"verif/core"
	"verif/gen"
	"verif/sess"
	"verif/tape"
)

// C18: frames are isolated under any growth.
// Part A (3 runs in 4), part C (1 run in 16, escaping closures, below): operation histories on the real memory package against a model (package c18a).
// Part B: calc programs with wide frames and deep recursion whose results have closed forms.
type C18 struct{}

func init() { core.Register(C18{}) }

func (C18) ID() string    { return "C18" }
func (C18) Level() string { return "exploration" }
func (C18) Runs(t core.Tier) int {
	if t == core.Thorough {
		return 6_000_000
	}
	return 120_000
}
func (C18) Rule() string {
	return "Part A (3 of 4 runs): " + c18a.Rule() + " Part B (3 of 16 runs): one calc session in which a function with w locals (w drawn around 0,1,127,128,129,255,256,300) writes a distinct value to each local, then runs a tape-chosen middle section (deep recursion growing the stack above the live frame, loops whose iterator reads the last local after an earlier small loop in the same statement so the fork recycles a smaller context, nested wide calls, closures and generators reading the locals after growth) and returns all its locals as an array; the result must equal the closed form. Part C (1 of 16 runs): escaping closures: a function value outlives the activation or iterator context whose variables it captured (yielded by a generator and returned out of the consuming loop; returned by its maker; closure of closure; created in a loop body; handed down and called deeper; two closures of one maker looping over their captured bound; multi-variable loops whose variables partly exist), other loops, zips, deep recursion and wide calls then reuse stack space and contexts in the same statement or later ones, and the closure is called again: closed-form result. Non-trivial (B) = the stack was relocated while a call frame was live, or a fork reused a recycled context. Distinct = hash of the operation list (A) or of the program shape, widths and depths (B)."
}
func (C18) Assumptions() []string {
	return append(c18a.Assumptions(),
		"part B programs never reassign a captured variable after the closure exists (finding K3 is a C03 finding, not a frame-isolation one)",
		"recursion depth is exercised to 100000 frames in the thorough tier, 20000 in quick; memory exhaustion itself is out of reach")
}
func (C18) RealComponents() []string {
	return []string{"memory (part A: driven directly through its exported protocol)", "parser", "STRewrite", "bytecoder", "vm", "memory", "value", "builtin (part B)"}
}
func (C18) StubComponents() []string {
	return []string{"part A: the VM is replaced by the harness issuing the memory calls the VM would issue (CALL/RET/FUNC/CCONT/DCONT protocol)"}
}

var widths = []int{0, 1, 2, 3, 5, 17, 64, 126, 127, 128, 129, 130, 200, 255, 256, 257, 300}

// drawWidth picks a padding width: half the time from the list above, otherwise from the windows
// just below the 128- and 256-slot allocation steps, one slot at a time, so that the frame pushed
// next lands on every offset around the end of the allocated stack.
func drawWidth(tp *tape.Tape) int {
	switch tp.Draw(4) {
	case 0, 1:
		return widths[tp.Draw(len(widths))]
	case 2:
		return 96 + tp.Draw(36)
	default:
		return 224 + tp.Draw(36)
	}
}

func (C18) Run(tp *tape.Tape) core.Result {
	switch tp.Draw(8) {
	case 6:
		return c18b(tp)
	case 7:
		if tp.Bool() {
			return c18c(tp)
		}
		return c18b(tp)
	}
	return c18a.RunHistory(tp)
}

func c18b(tp *tape.Tape) core.Result {
	var r core.Result
	repl := true
	h := &Hist{Flavour: "repl"}
	s := sess.New()
	s.TrackSP = true
	s.Budget = 20_000_000
	key := core.NewHash().Str("B")
	trace := core.NewHash()

	w := widths[tp.Draw(len(widths))]
	if tp.Draw(4) == 0 {
		w = tp.Draw(301)
	}
	names := make([]string, w)
	vals := make([]int, w)
	var lines []string
	for i := 0; i < w; i++ {
		names[i] = gen.PadName(i)
		vals[i] = 1000 + i*7
		lines = append(lines, fmt.Sprintf("%s = %d", names[i], vals[i]))
	}
	last := "5"
	lastVal := 5
	if w > 0 {
		last = names[w-1]
		lastVal = vals[w-1]
	}
	defs := []string{gen.PreludeSrc[0]} // deep
	extra := 0                          // extra result elements appended after the locals
	var extraVals []string
	nmid := 1 + tp.Draw(3)
	for m := 0; m < nmid; m++ {
		switch tp.Draw(7) {
		case 0: // deep recursion above the live frame
			d := []int{1, 50, 127, 128, 129, 500, 2000}[tp.Draw(7)]
			lines = append(lines, fmt.Sprintf("ra = deep(%d)", d))
			key = key.Str("deep").Int(d)
			r.Inc("F8.deep_call_above_wide_frame", 1)
		case 1: // small loop first, then a loop whose iterator reads the last local (recycled clone of a wide frame)
			lines = append(lines, "rb = 0", "for e <- fromto(0, 2) {\nrb = rb + e\n}",
				"rc = 0", fmt.Sprintf("for e <- fromto(%s - 3, %s) {\nrc = rc + e\n}", last, last))
			extra += 1
			extraVals = append(extraVals, fmt.Sprint(3*lastVal-6))
			lines = append(lines, "rr = rc")
			key = key.Str("loop-after-loop")
			r.Inc("F8.loop_after_small_loop", 1)
		case 2: // loop inside, iterator reads a local, body reads locals
			k := 1 + tp.Draw(5)
			lines = append(lines, "rd = 0", fmt.Sprintf("for e <- fromto(0, %d) {\nrd = rd + %s\n}", k, last))
			key = key.Str("loop-reading-local").Int(k)
		case 3: // nested wide call
			w2 := widths[tp.Draw(len(widths))]
			var in []string
			for i := 0; i < w2; i++ {
				in = append(in, fmt.Sprintf("%s = %d", gen.PadName(i), -i))
			}
			in = append(in, "deep(130)")
			defs = append(defs, "inner = () -> "+gen.Block(in))
			lines = append(lines, "re = inner()")
			key = key.Str("nested-wide").Int(w2)
			r.Inc("F8.nested_wide_call", 1)
		case 4: // closure reading a local after the stack grew (no reassignment after capture)
			lines = append(lines, fmt.Sprintf("h = (x) -> x + %s", last), "rf = deep(300)", "rg = h(1)")
			key = key.Str("closure-after-growth")
		case 5: // generator reading locals after resume, body makes calls
			lines = append(lines, fmt.Sprintf("gg = () -> {\nyield %s\ndeep(140)\nyield %s + 1\n}", last, last),
				"rh = 0", "for e <- gg() {\nrh = rh + e + deep(3)\n}")
			key = key.Str("generator-reading-local")
		default: // zip of generators at this depth
			lines = append(lines, "ri = 0", fmt.Sprintf("for a, b <- fromto(0, 3), fromto(%s, %s + 3) {\nri = ri + b - a\n}", last, last))
			key = key.Str("zip")
		}
	}
	_ = extra
	// result: all locals as an array (bound through names only: DESIGN 5.3)
	res := "[" + strings.Join(names, ", ") + "]"
	lines = append(lines, res)
	defs = append(defs, "wide = () -> "+gen.Block(lines))
	expect := make([]string, w)
	for i := range expect {
		expect[i] = fmt.Sprint(vals[i])
	}
	want := "[" + strings.Join(expect, ", ") + "]"

	// placement: at top level, under d frames, after history
	depth := []int{0, 0, 1, 5, 63, 64, 127, 128, 300}[tp.Draw(9)]
	call := "wide()"
	g := gen.New(tp)
	if depth > 0 {
		def, c := g.DeepCall("wide()", depth)
		defs = append(defs, def)
		call = c
	}
	var pre []string
	switch tp.Draw(4) {
	case 1:
		pre = append(pre, "deep(1000)")
	case 2:
		pre = append(pre, "for ga <- fromto(0, 3) {\ngb = ga\n}")
	case 3:
		pre = append(pre, "{\nfor ga <- fromto(0, 2) {\ngb = ga\n}\n"+call+"\n}")
	}
	key = key.Int(w).Int(depth).Int(len(pre))

	submit := func(src string) (sess.Outcome, bool) {
		h.add(src)
		outs := s.Submit(src+"\n", repl)
		r.Statements++
		o := outs[len(outs)-1]
		r.Instructions += o.Steps
		trace = trace.Str(o.Kind).Str(o.Val).Str(o.Err)
		if o.Kind == sess.KPanic {
			r.Violation = panicViolation("B.panic", o, h)
			return o, true
		}
		return o, false
	}
	for _, d := range defs {
		if o, stop := submit(d); stop || o.Kind != sess.KValue {
			if !stop {
				r.Discard = "definition failed: " + o.Brief()
			}
			goto done
		}
	}
	for _, p := range pre {
		if o, stop := submit(p); stop {
			goto done
		} else if o.Kind != sess.KValue {
			r.Violation = &core.Violation{Clause: "B.history-statement-failed", Detail: o.Brief() + "\n" + o.Report, History: h}
			goto done
		}
	}
	{
		o, stop := submit(call)
		if stop {
			goto done
		}
		if o.Kind != sess.KValue || o.Val != want {
			r.Violation = &core.Violation{Clause: "B.locals-after-growth",
				Detail:  fmt.Sprintf("wide(): %d locals under %d extra frames: got %s %s, want %s\n%s", w, depth, o.Kind, trunc(o.Val+o.Err, 300), trunc(want, 300), trunc(o.Report, 600)),
				History: h}
			goto done
		}
		if tp.Draw(10) == 0 {
			d := 20000
			if tp.Draw(8) == 0 {
				d = 100000
			}
			s.Budget = 10_000_000
			o, stop := submit(fmt.Sprintf("deep(%d)", d))
			if stop {
				goto done
			}
			if o.Kind != sess.KValue || o.Val != fmt.Sprint(d) {
				r.Violation = &core.Violation{Clause: "B.deep-recursion", Detail: fmt.Sprintf("deep(%d) gave %s", d, o.Brief()), History: h}
				goto done
			}
			r.Inc("F8.recursion_depth>=20000", 1)
		}
	}
done:
	mergeProbes(&r, s)
	r.NonTrivial = s.Probes["probe.stack_relocated_with_live_frame"] > 0 || s.Probes["probe.fork_reused_recycled_context"] > 0
	r.Key = uint64(key)
	r.Interleaving = uint64(trace)
	r.TraceHash = uint64(trace)
	r.Sample = h
	return r
}

// RunScript replays a hand-written calc history; the last step's value must equal Want[0].
func (C18) RunScript(raw json.RawMessage) core.Result {
	var r core.Result
	sc, h, err := parseScript(raw)
	if err != nil || len(sc.Want) != 1 {
		r.Discard = "bad script"
		return r
	}
	s := sess.New()
	var last sess.Outcome
	for _, src := range sc.Steps {
		for _, o := range s.Submit(src+"\n", sc.Flavour == "repl") {
			if o.Kind == sess.KPanic {
				r.Violation = panicViolation("B.panic", o, h)
				return r
			}
			last = o
		}
	}
	if last.Kind != sess.KValue || last.Val != sc.Want[0] {
		r.Violation = &core.Violation{Clause: "B.locals-after-growth", Detail: fmt.Sprintf("got %s, want %s\n%s", last.Brief(), sc.Want[0], trunc(last.Report, 500)), History: h}
	}
	return r
}

// ---------------------------------------------------------------- part C: escaping closures

// c18c: a function value outlives the activation (or the iterator context) whose variables it
// captured, other work then reuses the stack space and the contexts, and the closure is called
// again. Every program has a closed-form result. No captured variable is reassigned after capture
// (finding K3) and no closure travels inside an array (finding K4).
func c18c(tp *tape.Tape) core.Result {
	var r core.Result
	h := &Hist{Flavour: "repl", Notes: "part C: escaping closures"}
	s := sess.New()
	s.TrackSP = true
	s.Budget = 20_000_000
	key := core.NewHash().Str("C")
	trace := core.NewHash()
	k := 2 + tp.Draw(40)
	pad := func(n int) string {
		var b strings.Builder
		for i := 0; i < n; i++ {
			fmt.Fprintf(&b, "%s = %d\n", gen.PadName(i), 500+i)
		}
		return b.String()
	}
	w := []int{0, 0, 3, 60, 126, 127, 128, 130, 260}[tp.Draw(9)]
	// work done between creating the closure and calling it again
	mids := []string{
		"sa = 0\nfor i <- fromto(100, 103) {\nsa = sa + i\n}",
		"sb = 0\nfor i, j <- fromto(0, 5), elems(\"ab\") {\nsb = sb + i\n}",
		"sc = deep(300)",
		"sd = first(other)",
		"se = 0\nfor i <- fromto(0, 3) {\nfor j <- fromto(0, 2) {\nse = se + i * j\n}\n}",
		"sf = wide()",
		"sg = 0\nfor v <- map((x) -> x * 2, () -> fromto(0, 4)) {\nsg = sg + v\n}",
	}
	drawMid := func() string {
		n := tp.Draw(4)
		var out []string
		for i := 0; i < n; i++ {
			m := tp.Draw(len(mids))
			key = key.Int(m)
			out = append(out, mids[m])
		}
		return strings.Join(out, "\n")
	}
	defs := []string{
		gen.PreludeSrc[0],
		"map = (f, it) -> for e <- it() yield f(e)",
		"first = (g) -> for f <- g() return f",
		"other = () -> {\nb = [7, 8, 9]\nyield #b\n}",
		"wide = () -> {\n" + pad(140) + "deep(20)\n}",
	}
	var stmts []string // top-level statements after the definitions; the last one's value is checked
	var want string
	tpl := tp.Draw(17)
	key = key.Int(tpl).Int(w)
	switch tpl {
	case 0: // a generator yields a closure over its local; the consumer returns it out of the loop
		capt, res := fmt.Sprintf("k = %d", k), "k + 1"
		wantOne := fmt.Sprint(k + 1)
		if tp.Bool() {
			capt, res, wantOne = fmt.Sprintf("k = [%d, 2, 3]", k), "k", fmt.Sprintf("[%d, 2, 3]", k)
		}
		defs = append(defs, "gn = () -> {\n"+pad(w)+capt+"\nyield () -> "+res+"\n}")
		m1, m2 := drawMid(), drawMid()
		defs = append(defs, "main = () -> {\nh = first(gn)\nba = toa(h())\n"+m1+"\nbb = toa(h())\n"+m2+"\nbc = toa(h())\nba + \"|\" + bb + \"|\" + bc\n}")
		stmts = []string{"main()"}
		want = `"` + wantOne + "|" + wantOne + "|" + wantOne + `"`
		r.Inc("C.yielded_closure_returned_from_loop", 1)
	case 1: // closure returned from its maker, history in later statements
		defs = append(defs, "mk = (v) -> {\nx = v * 2\n"+pad(w)+"(y) -> x + y\n}")
		stmts = []string{fmt.Sprintf("h = mk(%d)", k), "h(1)"}
		for i := tp.Draw(3); i > 0; i-- {
			stmts = append(stmts, "{\n"+mids[tp.Draw(len(mids))]+"\n}", "h(1)")
		}
		want = fmt.Sprint(2*k + 1)
		r.Inc("C.closure_returned_by_maker", 1)
	case 2: // closures of closures (the Readme's explicit-copy idiom)
		defs = append(defs, "f = (x) -> (y) -> {\nx = x\n(z) -> x + y + z\n}")
		stmts = []string{fmt.Sprintf("s = f(%d)", k), "t = s(2)", "{\n" + drawMid() + "\nt(3)\n}", "t(3)"}
		want = fmt.Sprint(k + 5)
		r.Inc("C.closure_of_closure", 1)
	case 3: // closure created in a loop body and returned from there; captures the loop variable
		defs = append(defs, "pick = (n) -> {\n"+pad(w)+"for i <- fromto(0, 10) {\nif i == n {\nreturn (q) -> q * 10 + i\n}\n}\n0\n}",
			"main = (n) -> {\nh = pick(n)\nba = h(2)\n"+drawMid()+"\nbb = h(2)\n[ba, bb]\n}")
		n := tp.Draw(9)
		stmts = []string{fmt.Sprintf("main(%d)", n)}
		want = fmt.Sprintf("[%d, %d]", 20+n, 20+n)
		r.Inc("C.closure_created_in_loop_body", 1)
	case 4: // closure handed down and called deeper, after the stack grew (no escape)
		d := []int{0, 1, 5, 64, 127, 128, 300}[tp.Draw(7)]
		defs = append(defs, "app = (f, d) -> if d <= 0 {\nf(1)\n} else {\napp(f, d - 1)\n}",
			fmt.Sprintf("outer = (v) -> {\nx = v\n%sg = (y) -> x + y\nra = deep(150)\napp(g, %d)\n}", pad(w), d))
		stmts = []string{fmt.Sprintf("outer(%d)", k), "{\n" + drawMid() + "\nouter(" + fmt.Sprint(k) + ")\n}"}
		want = fmt.Sprint(k + 1)
		r.Inc("C.closure_called_deeper", 1)
	case 11: // a captured variable is updated after a deep call, on a stack that an earlier statement has already grown far beyond
		// what the call needs: nothing is reallocated, so the closure must see the update (finding K3 is about the
		// reallocating case only, which this program avoids by construction)
		d := []int{100, 200, 400}[tp.Draw(3)]
		first := 4000 + tp.Draw(3000)
		if tp.Bool() { // an order of magnitude larger: the stack was once several times what the later call needs
			d = 5000 + tp.Draw(2000)
			first = 16000 + tp.Draw(8000)
			if tp.Bool() { // and larger still
				d = 9000 + tp.Draw(3000)
				first = 30000 + tp.Draw(10000)
			}
			s.Budget = 60_000_000
		}
		defs = append(defs, fmt.Sprintf("upd = (v) -> {\n%sx = v\ng = () -> x\nra = deep(%d)\nx = v + 1\ng()\n}", pad(w), d))
		stmts = []string{fmt.Sprintf("deep(%d)", first), fmt.Sprintf("[upd(%d), upd(%d)]", k, k+10), "{\n" + drawMid() + fmt.Sprintf("\n[upd(%d), upd(%d)]\n}", k, k+10)}
		want = fmt.Sprintf("[%d, %d]", k+1, k+11)
		r.Inc("C.captured_variable_updated_on_a_stack_already_grown", 1)
	case 14: // inner functions whose only use of captured variables is to call them, or to take them as slice bounds
		defs = append(defs, "compose = (f, g) -> (x) -> f(g(x))", "inc = (n) -> n + 1", "dbl = (n) -> n * 2",
			"stepper = (f) -> {\n"+pad(w)+"step = (m) -> f(m)\n[step(1), step(2)]\n}",
			"tk = (n) -> (a) -> a[0:n]")
		stmts = []string{"hc = compose(inc, dbl)", "hd = compose(dbl, inc)", "ta = tk(3)", "tb = tk(2)",
			"{\n" + drawMid() + fmt.Sprintf("\n[hc(%d), hd(%d), stepper(inc), ta(\"abcdef\"), tb(\"abcdef\"), ta([1, 2, 3, 4])]\n}", k, k)}
		want = fmt.Sprintf("[%d, %d, [2, 3], abc, ab, [1, 2, 3]]", 2*k+1, 2*(k+1))
		r.Inc("C.captured_variables_only_called_or_used_as_bounds", 1)
	case 15: // the same, created at different stack positions and used later
		defs = append(defs, "tk = (n) -> (a) -> a[0:n]", "mkat = (d, n) -> if d <= 0 {\ntk(n)\n} else {\nmkat(d - 1, n)\n}")
		stmts = []string{"ta = mkat(0, 1)", fmt.Sprintf("tb = mkat(%d, 2)", 1+tp.Draw(40)), fmt.Sprintf("tc = mkat(%d, 3)", 100+tp.Draw(200)),
			"{\n" + drawMid() + "\n[ta(\"wxyz\"), tb(\"wxyz\"), tc(\"wxyz\"), ta(\"wxyz\")]\n}"}
		want = "[w, wx, wxy, w]"
		r.Inc("C.closures_of_one_literal_made_at_different_depths", 1)
	case 12: // the Readme's shadowing example: `a = a + k` inside a function reads the global (or captured) a and writes a local
		defs = append(defs, "gsh = 13", "shf = (n) -> {\n"+pad(w)+"gsh = gsh + 1\n}", "shg = (n) -> {\ngsh = 2 + gsh\ngsh = gsh - 1\ngsh * n\n}",
			"shm = (c) -> () -> {\nc = c + 2\nc\n}")
		stmts = []string{"shf(1)", fmt.Sprintf("shh = shm(%d)", k), "{\n" + drawMid() + "\n[shf(1), gsh, shg(2), shh(), shh(), gsh]\n}"}
		want = fmt.Sprintf("[14, 13, 28, %d, %d, 13]", k+2, k+2)
		r.Inc("C.shadowing_increment", 1)
	case 13: // functions defined in this activation travel down inside an array, in a call that is the activation's last action
		defs = append(defs, "hap = (hs, v) -> {\nf = hs[0]\ng = hs[1]\n[f(v), g(v), #hs]\n}",
			"hrun = (k) -> {\n"+pad(w)+"x = k\nhs = [(y) -> x + y, (y) -> x * y, 5]\nhap(hs, 7)\n}",
			"hrec = (k, d) -> if d <= 0 {\nhrun(k)\n} else {\nhrec(k, d - 1)\n}")
		stmts = []string{fmt.Sprintf("hrun(%d)", k), "{\n" + drawMid() + fmt.Sprintf("\nhrec(%d, %d)\n}", k, tp.Draw(6))}
		want = fmt.Sprintf("[%d, %d, 3]", k+7, k*7)
		r.Inc("C.functions_inside_an_array_argument_of_a_tail_call", 1)
	case 10: // the same function, so the same frame shape at the same place, with other arguments after the stack was reallocated
		defs = append(defs, "shp = (v) -> {\n"+pad(w)+"x = v * 2\nh = (y) -> x + y\nh(1)\n}")
		d := []int{150, 300, 1200, 3000}[tp.Draw(4)]
		stmts = []string{fmt.Sprintf("shp(%d)", k), fmt.Sprintf("deep(%d)", d), fmt.Sprintf("shp(%d)", k+5), "{\n" + drawMid() + fmt.Sprintf("\n[shp(%d), deep(%d), shp(%d)]\n}", k+1, 2*d, k+9)}
		want = fmt.Sprintf("[%d, %d, %d]", 2*(k+1)+1, 2*d, 2*(k+9)+1)
		r.Inc("C.same_frame_shape_other_arguments_after_growth", 1)
	case 9: // three function literals deep: the innermost reads a name its grandparent binds; it sees the global (Readme: own, enclosing, global)
		defs = append(defs, "ww = 100", "wf = (ww) -> (y) -> {\n"+pad(w)+"(z) -> ww + y + z\n}")
		stmts = []string{fmt.Sprintf("ws = wf(%d)", k), "wt = ws(1)", "{\n" + drawMid() + "\nwt(2)\n}", "wt(2)"}
		want = "103"
		r.Inc("C.name_of_grandparent_function", 1)
	case 8: // locals reach the iterator only through function literals written inside the iterator expression
		a, b := 2+tp.Draw(5), 2+tp.Draw(5)
		defs = append(defs, fmt.Sprintf("lam = (k, n) -> {\n%ss = 0\nfor y <- map((e) -> e * k, () -> fromto(0, n)) {\ns = s + y\n}\nk = k + 1\nt = 0\nfor y <- map((e) -> e * k + n, () -> fromto(0, n)) {\nt = t + y\n}\n[s, t]\n}", pad(w)))
		tri := func(n int) int { return n * (n - 1) / 2 }
		stmts = []string{fmt.Sprintf("lam(%d, %d)", k, a), "{\n" + drawMid() + fmt.Sprintf("\n[lam(%d, %d), lam(%d, %d)]\n}", k, a, 3, b)}
		want = fmt.Sprintf("[[%d, %d], [%d, %d]]", k*tri(a), (k+1)*tri(a)+a*a, 3*tri(b), 4*tri(b)+b*b)
		r.Inc("C.locals_captured_by_literals_inside_iterator_expression", 1)
	case 7: // closures yielded by a generator and kept by a top-level loop body (no return detaches them), used in later statements
		defs = append(defs, "gk = (b) -> {\n"+pad(w)+"k = b * 10\nyield (x) -> x + k\nj = b * 100\nyield (x) -> x + j + k\n}")
		stmts = []string{fmt.Sprintf("for kf <- gk(%d) {\nkeep = kf\n}", k), "keep(1)"}
		for i := 1 + tp.Draw(3); i > 0; i-- {
			stmts = append(stmts, "{\n"+mids[tp.Draw(len(mids))]+"\n}", "keep(1)")
		}
		stmts = append(stmts, "for ka <- fromto(0, 3) {\nfor kb <- fromto(0, 2) {\nkc = ka + kb\n}\n}", "wide()", "keep(1)")
		want = fmt.Sprint(1 + k*100 + k*10)
		r.Inc("C.yielded_closure_kept_across_statements", 1)
	case 5: // two closures of one maker, each running a loop over its captured bound, in one statement
		defs = append(defs, "mk = (n) -> () -> {\ns = 0\nfor i <- fromto(0, n) {\ns = s + 1\n}\ns\n}")
		stmts = []string{"a = mk(3)", fmt.Sprintf("b = mk(%d)", k), "[a(), b(), a()]", "{\n" + drawMid() + "\n[a(), b(), a(), b()]\n}"}
		want = fmt.Sprintf("[3, %d, 3, %d]", k, k)
		r.Inc("C.two_closures_looping_over_captured_bound", 1)
	case 16: // a loop variable named like the global or captured variable that the loop's own iterator expression reads
		defs = append(defs, "wq = \"a.b\"",
			"spl = () -> {\n"+pad(w)+"r = \"\"\nfor wq <- elems(wq) {\nr = r + wq + \",\"\n}\nr\n}",
			"mkl = (wz) -> () -> {\nt = 0\nfor wz <- fromto(0, wz) {\nt = t + wz\n}\nt\n}")
		stmts = []string{fmt.Sprintf("hl = mkl(%d)", k), "{\n" + drawMid() + "\n[spl(), hl(), wq, hl()]\n}"}
		want = fmt.Sprintf("[a,.,b,, %d, a.b, %d]", k*(k-1)/2, k*(k-1)/2)
		r.Inc("C.loop_variable_named_like_what_its_iterator_reads", 1)
	default: // a multi-variable loop whose variables partly exist already, locals assigned after it
		defs = append(defs, fmt.Sprintf("zl = (za, n) -> {\nzs = 0\n%sfor za, zb <- fromto(0, n), fromto(10, 10 + n) {\nzs = zs + za + zb\n}\nzd = 77\nfor ze, zs <- fromto(0, 2), fromto(5, 9) {\nzf = ze\n}\nzg = 88\n[za, zb, zs, zd, ze, zf, zg, n]\n}", pad(w)))
		n := 1 + tp.Draw(5)
		stmts = []string{fmt.Sprintf("zl(%d, %d)", k, n)}
		want = fmt.Sprintf("[%d, %d, 6, 77, 1, 1, 88, %d]", n-1, 10+n-1, n)
		r.Inc("C.loop_variables_partly_existing", 1)
	}
	depth := []int{0, 0, 1, 6, 64, 128}[tp.Draw(6)]
	if depth > 0 {
		last := stmts[len(stmts)-1]
		if !strings.HasPrefix(last, "{") {
			g := gen.New(tp)
			def, c := g.DeepCall(last, depth)
			defs = append(defs, def)
			stmts[len(stmts)-1] = c
		}
	}
	key = key.Int(depth)
	run := func(src string) (sess.Outcome, bool) {
		h.add(src)
		outs := s.Submit(src+"\n", true)
		r.Statements++
		o := outs[len(outs)-1]
		r.Instructions += o.Steps
		trace = trace.Str(o.Kind).Str(o.Val).Str(o.Err)
		if o.Kind == sess.KPanic {
			r.Violation = panicViolation("C.panic", o, h)
			return o, true
		}
		return o, false
	}
	var last sess.Outcome
	for _, d := range defs {
		if o, stop := run(d); stop || o.Kind != sess.KValue {
			if !stop {
				r.Discard = "definition failed: " + o.Brief()
			}
			goto done
		}
	}
	for _, st := range stmts {
		o, stop := run(st)
		if stop {
			goto done
		}
		if o.Kind != sess.KValue {
			r.Violation = &core.Violation{Clause: "C.statement-failed", Detail: fmt.Sprintf("%s ended with %s\n%s", trunc(st, 80), o.Brief(), trunc(o.Report, 500)), History: h}
			goto done
		}
		last = o
	}
	if last.Val != want {
		r.Violation = &core.Violation{Clause: "C.escaped-closure-value", Detail: fmt.Sprintf("got %s, want %s", last.Val, want), History: h}
	}
done:
	mergeProbes(&r, s)
	r.NonTrivial = true
	r.Key = uint64(key)
	r.Interleaving = uint64(trace)
	r.TraceHash = uint64(trace)
	r.Sample = h
	return r
}
