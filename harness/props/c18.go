package props

import (
	"encoding/json"
	"fmt"
	"strings"

	"verif/c18a"
	"verif/core"
	"verif/gen"
	"verif/sess"
	"verif/tape"
)

// C18: frames are isolated under any growth.
// Part A (3 runs in 4): operation histories on the real memory package against a model (package c18a).
// Part B: calc programs with wide frames and deep recursion whose results have closed forms.
type C18 struct{}

func init() { core.Register(C18{}) }

func (C18) ID() string    { return "C18" }
func (C18) Level() string { return "exploration" }
func (C18) Runs(t core.Tier) int {
	if t == core.Thorough {
		return 6_000_000
	}
	return 120_000
}
func (C18) Rule() string {
	return "Part A (3 of 4 runs): " + c18a.Rule() + " Part B (1 of 4 runs): one calc session in which a function with w locals (w drawn around 0,1,127,128,129,255,256,300) writes a distinct value to each local, then runs a tape-chosen middle section (deep recursion growing the stack above the live frame, loops whose iterator reads the last local after an earlier small loop in the same statement so the fork recycles a smaller context, nested wide calls, closures and generators reading the locals after growth) and returns all its locals as an array; the result must equal the closed form. Non-trivial (B) = the stack was relocated while a call frame was live, or a fork reused a recycled context. Distinct = hash of the operation list (A) or of the program shape, widths and depths (B)."
}
func (C18) Assumptions() []string {
	return append(c18a.Assumptions(),
		"part B programs never reassign a captured variable after the closure exists (finding K3 is a C03 finding, not a frame-isolation one)",
		"recursion depth is exercised to 100000 frames in the thorough tier, 20000 in quick; memory exhaustion itself is out of reach")
}
func (C18) RealComponents() []string {
	return []string{"memory (part A: driven directly through its exported protocol)", "parser", "STRewrite", "bytecoder", "vm", "memory", "value", "builtin (part B)"}
}
func (C18) StubComponents() []string {
	return []string{"part A: the VM is replaced by the harness issuing the memory calls the VM would issue (CALL/RET/FUNC/CCONT/DCONT protocol)"}
}

var widths = []int{0, 1, 2, 3, 5, 17, 64, 126, 127, 128, 129, 130, 200, 255, 256, 257, 300}

func (C18) Run(tp *tape.Tape) core.Result {
	if tp.Draw(4) != 3 {
		r := c18a.RunHistory(tp)
		return r
	}
	return c18b(tp)
}

func c18b(tp *tape.Tape) core.Result {
	var r core.Result
	repl := true
	h := &Hist{Flavour: "repl"}
	s := sess.New()
	s.TrackSP = true
	s.Budget = 20_000_000
	key := core.NewHash().Str("B")
	trace := core.NewHash()

	w := widths[tp.Draw(len(widths))]
	if tp.Draw(4) == 0 {
		w = tp.Draw(301)
	}
	names := make([]string, w)
	vals := make([]int, w)
	var lines []string
	for i := 0; i < w; i++ {
		names[i] = gen.PadName(i)
		vals[i] = 1000 + i*7
		lines = append(lines, fmt.Sprintf("%s = %d", names[i], vals[i]))
	}
	last := "5"
	lastVal := 5
	if w > 0 {
		last = names[w-1]
		lastVal = vals[w-1]
	}
	defs := []string{gen.PreludeSrc[0]} // deep
	extra := 0                          // extra result elements appended after the locals
	var extraVals []string
	nmid := 1 + tp.Draw(3)
	for m := 0; m < nmid; m++ {
		switch tp.Draw(7) {
		case 0: // deep recursion above the live frame
			d := []int{1, 50, 127, 128, 129, 500, 2000}[tp.Draw(7)]
			lines = append(lines, fmt.Sprintf("ra = deep(%d)", d))
			key = key.Str("deep").Int(d)
			r.Inc("F8.deep_call_above_wide_frame", 1)
		case 1: // small loop first, then a loop whose iterator reads the last local (recycled clone of a wide frame)
			lines = append(lines, "rb = 0", "for e <- fromto(0, 2) {\nrb = rb + e\n}",
				"rc = 0", fmt.Sprintf("for e <- fromto(%s - 3, %s) {\nrc = rc + e\n}", last, last))
			extra += 1
			extraVals = append(extraVals, fmt.Sprint(3*lastVal-6))
			lines = append(lines, "rr = rc")
			key = key.Str("loop-after-loop")
			r.Inc("F8.loop_after_small_loop", 1)
		case 2: // loop inside, iterator reads a local, body reads locals
			k := 1 + tp.Draw(5)
			lines = append(lines, "rd = 0", fmt.Sprintf("for e <- fromto(0, %d) {\nrd = rd + %s\n}", k, last))
			key = key.Str("loop-reading-local").Int(k)
		case 3: // nested wide call
			w2 := widths[tp.Draw(len(widths))]
			var in []string
			for i := 0; i < w2; i++ {
				in = append(in, fmt.Sprintf("%s = %d", gen.PadName(i), -i))
			}
			in = append(in, "deep(130)")
			defs = append(defs, "inner = () -> "+gen.Block(in))
			lines = append(lines, "re = inner()")
			key = key.Str("nested-wide").Int(w2)
			r.Inc("F8.nested_wide_call", 1)
		case 4: // closure reading a local after the stack grew (no reassignment after capture)
			lines = append(lines, fmt.Sprintf("h = (x) -> x + %s", last), "rf = deep(300)", "rg = h(1)")
			key = key.Str("closure-after-growth")
		case 5: // generator reading locals after resume, body makes calls
			lines = append(lines, fmt.Sprintf("gg = () -> {\nyield %s\ndeep(140)\nyield %s + 1\n}", last, last),
				"rh = 0", "for e <- gg() {\nrh = rh + e + deep(3)\n}")
			key = key.Str("generator-reading-local")
		default: // zip of generators at this depth
			lines = append(lines, "ri = 0", fmt.Sprintf("for a, b <- fromto(0, 3), fromto(%s, %s + 3) {\nri = ri + b - a\n}", last, last))
			key = key.Str("zip")
		}
	}
	_ = extra
	// result: all locals as an array (bound through names only: DESIGN 5.3)
	res := "[" + strings.Join(names, ", ") + "]"
	lines = append(lines, res)
	defs = append(defs, "wide = () -> "+gen.Block(lines))
	expect := make([]string, w)
	for i := range expect {
		expect[i] = fmt.Sprint(vals[i])
	}
	want := "[" + strings.Join(expect, ", ") + "]"

	// placement: at top level, under d frames, after history
	depth := []int{0, 0, 1, 5, 63, 64, 127, 128, 300}[tp.Draw(9)]
	call := "wide()"
	g := gen.New(tp)
	if depth > 0 {
		def, c := g.DeepCall("wide()", depth)
		defs = append(defs, def)
		call = c
	}
	var pre []string
	switch tp.Draw(4) {
	case 1:
		pre = append(pre, "deep(1000)")
	case 2:
		pre = append(pre, "for ga <- fromto(0, 3) {\ngb = ga\n}")
	case 3:
		pre = append(pre, "{\nfor ga <- fromto(0, 2) {\ngb = ga\n}\n"+call+"\n}")
	}
	key = key.Int(w).Int(depth).Int(len(pre))

	submit := func(src string) (sess.Outcome, bool) {
		h.add(src)
		outs := s.Submit(src+"\n", repl)
		r.Statements++
		o := outs[len(outs)-1]
		r.Instructions += o.Steps
		trace = trace.Str(o.Kind).Str(o.Val).Str(o.Err)
		if o.Kind == sess.KPanic {
			r.Violation = panicViolation("B.panic", o, h)
			return o, true
		}
		return o, false
	}
	for _, d := range defs {
		if o, stop := submit(d); stop || o.Kind != sess.KValue {
			if !stop {
				r.Discard = "definition failed: " + o.Brief()
			}
			goto done
		}
	}
	for _, p := range pre {
		if o, stop := submit(p); stop {
			goto done
		} else if o.Kind != sess.KValue {
			r.Violation = &core.Violation{Clause: "B.history-statement-failed", Detail: o.Brief() + "\n" + o.Report, History: h}
			goto done
		}
	}
	{
		o, stop := submit(call)
		if stop {
			goto done
		}
		if o.Kind != sess.KValue || o.Val != want {
			r.Violation = &core.Violation{Clause: "B.locals-after-growth",
				Detail:  fmt.Sprintf("wide(): %d locals under %d extra frames: got %s %s, want %s\n%s", w, depth, o.Kind, trunc(o.Val+o.Err, 300), trunc(want, 300), trunc(o.Report, 600)),
				History: h}
			goto done
		}
		if tp.Draw(10) == 0 {
			d := 20000
			if tp.Draw(8) == 0 {
				d = 100000
			}
			s.Budget = 10_000_000
			o, stop := submit(fmt.Sprintf("deep(%d)", d))
			if stop {
				goto done
			}
			if o.Kind != sess.KValue || o.Val != fmt.Sprint(d) {
				r.Violation = &core.Violation{Clause: "B.deep-recursion", Detail: fmt.Sprintf("deep(%d) gave %s", d, o.Brief()), History: h}
				goto done
			}
			r.Inc("F8.recursion_depth>=20000", 1)
		}
	}
done:
	mergeProbes(&r, s)
	r.NonTrivial = s.Probes["probe.stack_relocated_with_live_frame"] > 0 || s.Probes["probe.fork_reused_recycled_context"] > 0
	r.Key = uint64(key)
	r.Interleaving = uint64(trace)
	r.TraceHash = uint64(trace)
	r.Sample = h
	return r
}

// RunScript replays a hand-written calc history; the last step's value must equal Want[0].
func (C18) RunScript(raw json.RawMessage) core.Result {
	var r core.Result
	sc, h, err := parseScript(raw)
	if err != nil || len(sc.Want) != 1 {
		r.Discard = "bad script"
		return r
	}
	s := sess.New()
	var last sess.Outcome
	for _, src := range sc.Steps {
		for _, o := range s.Submit(src+"\n", sc.Flavour == "repl") {
			if o.Kind == sess.KPanic {
				r.Violation = panicViolation("B.panic", o, h)
				return r
			}
			last = o
		}
	}
	if last.Kind != sess.KValue || last.Val != sc.Want[0] {
		r.Violation = &core.Violation{Clause: "B.locals-after-growth", Detail: fmt.Sprintf("got %s, want %s\n%s", last.Brief(), sc.Want[0], trunc(last.Report, 500)), History: h}
	}
	return r
}
