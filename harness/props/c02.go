package props

import (
	"encoding/json"
	"fmt"

	"verif/core"
	"verif/gen"
	"verif/sess"
	"verif/tape"
)

// C02: for loops consume exactly what their iterators yield, lazily and in order.
type C02 struct{}

func init() { core.Register(C02{}) }

func (C02) ID() string    { return "C02" }
func (C02) Level() string { return "exploration" }
func (C02) Runs(t core.Tier) int {
	if t == core.Thorough {
		return 900_000
	}
	return 30_000
}
func (C02) Rule() string {
	return "One run = one session whose generators and loop bodies are instrumented in calc itself (write before each yield, after each resume, at body entry and exit), so captured stdout is an event log in true execution order. Generators: explicit yields, counting loops with filters, recursive walks, generators over generators, yield through helper calls (incl. the value of a yield expression), closure generators from factories, map/filter/take/chain/zip compositions to depth 3; loops: single, nested (cross product), multi-iterator (lock-step, first exhaustion), return from bodies at any nesting (cancellation), errors inside generator or body, loops one after another and inside one another in one statement (context recycling) and across statements, the function holding the loop placed under 0..300 extra frames with padding locals, generators called with no enclosing loop (naked yield). Oracle: the definitional reference model (coroutines) runs the same statements; event log, value and error class must be identical per statement. Non-trivial = >= 2 context switches and one of nesting, zip, cancellation, composition, recycled context. Distinct = hash of statement shapes and the VM-level context-switch trace."
}
func (C02) Assumptions() []string {
	return []string{
		"the reference model (verif/model, written from Readme.md) is the oracle; generated programs avoid the corners the Readme leaves undefined (DESIGN.md 5.3, Appendix A)",
		"runs in which either side exceeds its step budget are discarded and counted",
	}
}
func (C02) RealComponents() []string { return C09{}.RealComponents() }
func (C02) StubComponents() []string {
	return append(C09{}.StubComponents(), "oracle side: reference interpreter over the real parser's tree")
}

func (C02) Run(tp *tape.Tape) core.Result {
	var r core.Result
	sw := drawSwarm(tp)
	if sw.NGen == 0 {
		sw.NGen = 1
	}
	g := newGen(tp, sw)
	g.Log = true
	repl := sw.Repl
	h := &Hist{Flavour: flavour(repl)}
	s := sess.New()
	in := newModel()
	key := core.NewHash().Str(h.Flavour)
	trace := core.NewHash()
	switches := 0
	faultRate := tp.Draw(4)

	step := func(src string) bool {
		h.add(src)
		key = key.Str(shapeOf(src))
		outs := s.Submit(src+"\n", repl)
		mouts, ok := modelSubmit(in, src+"\n")
		r.Statements++
		for _, o := range outs {
			r.Instructions += o.Steps
			key = key.Int(int(o.Trace))
			trace = trace.Int(int(o.Trace)).Str(o.Kind).Str(o.Val).Str(o.Out).Str(o.Err)
			switches += o.Switches
			if o.Kind == sess.KPanic {
				r.Violation = panicViolation("panic", o, h)
				return true
			}
			if o.Kind == sess.KParse {
				r.Discard = "generator produced unparsable text: " + trunc(o.Err, 60)
				return true
			}
		}
		if !ok || len(mouts) != len(outs) {
			r.Discard = "model could not parse"
			return true
		}
		for i, o := range outs {
			m := mouts[i]
			if o.Kind == sess.KBudget || m.Kind == sess.KBudget {
				r.Discard = "budget"
				return true
			}
			if !agrees(o, m, repl) {
				clause := "event-log"
				if o.Out == m.Out {
					clause = "loop-result"
					if o.Kind != m.Kind || o.Err != m.Err {
						clause = "error-class"
					}
				}
				r.Violation = &core.Violation{Clause: clause,
					Detail:  fmt.Sprintf("statement %d: real  %s\n              model %s\n%s", len(h.Steps), o.Brief(), m.Brief(), trunc(o.Report, 400)),
					History: h}
				return true
			}
			if o.Kind == sess.KError {
				r.Inc("F1.runtime_error_in_loop_statement."+o.Err, 1)
			}
		}
		return false
	}

	for _, d := range append(append([]string{}, BombSrc...), buildDefs(g, sw)...) {
		if step(d) {
			goto done
		}
	}
	// a generator whose bound and step are global variables: a loop body (or anything else that
	// runs between two resumptions) may change them, and the generator must see the change
	// generator factories: closures whose loop iterates directly over a captured variable; several of
	// them consumed one after another in one statement run in recycled contexts under different
	// closure frames
	if step("upto = (n) -> () -> for i <- fromto(0, n) {\nyield i\n}") || step("updn = (n, m) -> () -> {\nfor i <- fromto(0, n) {\nyield i\n}\nfor j <- fromto(0, m) {\nyield m - j\n}\n}") ||
		step("coll = (it) -> {\nr = []\nfor e <- it() {\nr = r + [e]\n}\nr\n}") {
		goto done
	}
	// the value of a yield whose operand is a plain global: it is the value the global had when the
	// generator yielded, whatever the loop body assigned before the generator was resumed
	if step("gecho = () -> yield gqa") || step("gnv = (n) -> {\ni = 0\nwhile i < n {\nv = gecho()\nwrite(\"V\" + toa(v) + \",\" + toa(gqa) + \";\")\ni = i + 1\n}\n}") {
		goto done
	}
	// loop variables of a function-level multi-iterator loop are ordinary locals: after the loop they
	// hold what the last round bound, member by member, up to the member that ran dry
	if step("zq = (n, m) -> {\na = 0 - 1\nb = 0 - 1\nc = 0 - 1\nfor a, b, c <- fromto(0, n), fromto(10, 10 + m), fromto(20, 29) {\nwrite(toa(a) + toa(b) + toa(c) + \";\")\n}\n[a, b, c]\n}") {
		goto done
	}
	// the value of a loop whose body never ran is nil, whatever the variables its body would assign
	// hold; a body may assign its own loop variable (it is rebound from the iterator in the next
	// round and keeps its last value after the loop); closure generators that re-read a captured
	// variable after every yield, driven from the top level while the body calls other closures
	if step("lr = (n, m) -> {\ns = 5\nfor i, j <- fromto(0, n), fromto(0, m) {\ns = s + i + j\n}\n}") ||
		step("lq = (n) -> {\ns = 7\nt = 0\nfor i <- fromto(0, n) {\nt = i\nfor j <- fromto(0, i - 1) {\ns = s + j\n}\n}\n}") ||
		step("lv = (n) -> {\nfor i <- fromto(0, n) {\nwrite(toa(i) + \";\")\nif i == 1 {\ni = i + 5\nwrite(toa(i) + \"!\")\n}\n}\ni\n}") ||
		step("mkinc = (k) -> (x) -> x + k") || step("cgen = (b) -> () -> {\nyield b\nyield b + 1\nyield b * 2\n}") {
		goto done
	}
	if step("gqa = 3") || step("gqb = 1") || step("gng = (n) -> {\ni = 0\nwhile i < gqa {\nwrite(\"Y\" + toa(i) + \";\")\nyield i + n\nwrite(\"R\" + toa(gqa) + \",\" + toa(gqb) + \";\")\ni = i + gqb\n}\n}") {
		goto done
	}
	{
		top := g.TopScope(sw.TopRet)
		for i := 0; i < sw.NStmts; i++ {
			switch k := tp.Draw(8); {
			case k == 0: // a loop-holding function under extra frames
				var cands []gen.Def
				for _, d := range g.Defs {
					if d.Kind == gen.Pure || d.Kind == gen.Proc {
						cands = append(cands, d)
					}
				}
				if len(cands) == 0 {
					break
				}
				d := cands[tp.Draw(len(cands))]
				args := ""
				for a := 0; a < d.Arity; a++ {
					if a > 0 {
						args += ", "
					}
					args += fmt.Sprint(tp.Draw(5))
				}
				depth := c03Depths[tp.Draw(len(c03Depths))]
				w := 0
				if tp.Bool() {
					w = drawWidth(tp)
				}
				inner := d.Name + "(" + args + ")"
				var defs []string
				if w > 0 {
					defs, inner = g.Wrapper(inner, 1, w)
				}
				if depth > 0 {
					def, c := g.DeepCall(inner, depth)
					defs = append(defs, def)
					inner = c
				}
				for _, df := range defs {
					if step(df) {
						goto done
					}
				}
				r.Inc("F8.loop_function_under_padding", 1)
				if step(inner) {
					goto done
				}
				continue
			case k == 5:
				r.Inc("F5.value_of_loop_that_never_ran_or_assigns_its_variable", 1)
				v := []string{fmt.Sprintf("lr(%d, %d)", tp.Draw(3), tp.Draw(3)), fmt.Sprintf("lq(%d)", tp.Draw(4)), fmt.Sprintf("lv(%d)", tp.Draw(5)),
					fmt.Sprintf("[lr(0, 2), lr(2, 0), lq(1), lv(%d)]", tp.Draw(4))}[tp.Draw(4)]
				if step(v) {
					goto done
				}
				if tp.Draw(3) == 0 { // a generator hands out function values that were made elsewhere
					if step(fmt.Sprintf("for qh <- elems([mkinc(1), mkinc(%d), mkinc(100)]) {\nwrite(toa(qh(5)) + \";\")\n}", 10+tp.Draw(9))) ||
						step("qfs = (n) -> {\nr = []\nfor h <- elems([mkinc(n), mkinc(n * 2)]) {\nr = r + [h(1)]\n}\nr\n}") || step(fmt.Sprintf("qfs(%d)", 1+tp.Draw(9))) {
						goto done
					}
				}
				if tp.Bool() { // a closure generator driven from the top level; the body calls another closure after each value
					if step(fmt.Sprintf("qcg = cgen(%d)", 1+tp.Draw(9))) || step(fmt.Sprintf("qin = mkinc(%d)", 100+tp.Draw(9))) ||
						step("for qa <- qcg() {\nwrite(toa(qa) + \",\" + toa(qin(qa)) + \";\")\n}") {
						goto done
					}
				}
				continue
			case k == 4: // unequal lengths: which variables the incomplete last round still bound
				r.Inc("F5.loop_variables_read_after_unequal_zip", 1)
				if step(fmt.Sprintf("zq(%d, %d)", tp.Draw(5), tp.Draw(5))) {
					goto done
				}
				continue
			case k == 3: // factory-made generators consumed one after another (and inside one another) in one statement
				a, b, c := 1+tp.Draw(5), 1+tp.Draw(5), tp.Draw(4)
				v := fmt.Sprintf("{\nta = upto(%d)\ntb = upto(%d)\ntc = updn(%d, %d)\nwrite(coll(ta))\nwrite(coll(tb))\nwrite(coll(tc))\nwrite(coll(ta))\n", a, b, c, a)
				if tp.Bool() {
					v += "for qa <- tb() {\nfor qb <- ta() {\nwrite(toa(qa) + \":\" + toa(qb) + \";\")\n}\n}\n"
				}
				if tp.Bool() {
					v += "for qa, qb <- ta(), tc() {\nwrite(toa(qa) + \"=\" + toa(qb) + \";\")\n}\nwrite(coll(tb))\n"
				}
				v += "}"
				r.Inc("F8.factory_generators_in_one_statement", 1)
				if step(v) {
					goto done
				}
				continue
			case k == 2: // the body changes globals the running generator reads after it is resumed
				lim := 1 + tp.Draw(3)
				body := fmt.Sprintf("write(\"B\" + toa(qg) + \";\")\nif qg < %d {\ngqa = gqa + 1\n}", lim)
				if tp.Bool() {
					body += fmt.Sprintf("\nif qg == %d {\ngqb = gqb + 1\n}", tp.Draw(3))
				}
				v := "for qg <- gng(" + fmt.Sprint(tp.Draw(3)) + ") {\n" + body + "\n}"
				if tp.Draw(3) == 0 { // value of a yield of a plain global, re-read after the body changed it
					v = fmt.Sprintf("for qg <- gnv(%d) {\nwrite(\"B\" + toa(qg) + \";\")\ngqa = gqa + 100\n}", 2+tp.Draw(3))
				} else if tp.Bool() { // the same inside a function: globals are still shared, locals are not
					v = "{\nfq = () -> {\ns = 0\nfor qg <- gng(0) {\ns = s + qg\nwrite(\"B\" + toa(qg) + \";\")\n}\ns\n}\nfq()\n}"
				}
				r.Inc("F4.body_changes_globals_read_by_running_generator", 1)
				if step(v) || step("gqa = 3") || step("gqb = 1") {
					goto done
				}
				continue
			case k == 1 && faultRate > 0: // error inside a generator at resume k, consumed by an instrumented loop
				n := 2 + tp.Draw(4)
				v := fmt.Sprintf("for qa <- bgen(%d, %d, 0) {\nwrite(\"B\" + toa(qa) + \";\")\n}", n, tp.Draw(n))
				if tp.Bool() {
					v = fmt.Sprintf("for qa, qb <- fromto(0, %d), bgen(%d, %d, 0) {\nwrite(\"B\" + toa(qa) + \",\" + toa(qb) + \";\")\n}", n, n, tp.Draw(n))
				}
				if step(v) {
					goto done
				}
				continue
			}
			for _, l := range g.TopStmt(top) {
				if step(l) {
					goto done
				}
			}
		}
	}
done:
	mergeFeat(&r, g)
	mergeProbes(&r, s)
	r.Inc("model.yields", in.Yields)
	r.Inc("model.coroutines_abandoned", in.Abandoned)
	f := g.Feat
	r.NonTrivial = switches >= 2 && (f["for.nested"] > 0 || f["for.zip"] > 0 || f["for.return_in_body"] > 0 || f["iter.composed"] > 0 || s.Probes["probe.fork_reused_recycled_context"] > 0)
	r.Key = uint64(key)
	r.Interleaving = uint64(trace)
	r.TraceHash = uint64(trace)
	r.Sample = h
	return r
}

// RunScript replays a hand-written history against the model.
func (C02) RunScript(raw json.RawMessage) core.Result {
	var r core.Result
	sc, h, err := parseScript(raw)
	if err != nil {
		r.Discard = err.Error()
		return r
	}
	repl := sc.Flavour == "repl"
	s := sess.New()
	in := newModel()
	for i, src := range sc.Steps {
		outs := s.Submit(src+"\n", repl)
		mouts, ok := modelSubmit(in, src+"\n")
		if !ok || len(mouts) != len(outs) {
			r.Discard = "script does not parse"
			return r
		}
		for j, o := range outs {
			if o.Kind == sess.KPanic {
				r.Violation = panicViolation("panic", o, h)
				return r
			}
			if !agrees(o, mouts[j], repl) {
				r.Violation = &core.Violation{Clause: "event-log", Detail: fmt.Sprintf("step %d: real %s | model %s", i+1, o.Brief(), mouts[j].Brief()), History: h}
				return r
			}
		}
	}
	return r
}
