package props

import (
	"encoding/json"
	"fmt"
	"os"
	"strings"

	"github.com/paulsonkoly/calc/parser"
	"github.com/paulsonkoly/calc/types/node"

	"verif/core"
	"verif/sess"
	"verif/tape"
)

// C16: all three run modes execute the same program the same way.
type C16 struct{}

func init() { core.Register(C16{}) }

func (C16) ID() string    { return "C16" }
func (C16) Level() string { return "exploration" }
func (C16) Runs(t core.Tier) int {
	if t == core.Thorough {
		return 200_000
	}
	return 8_000
}
func (C16) Rule() string {
	return "One run = a list of 1..8 top-level statements with known individual texts (one-line statements, multi-line blocks, array literals and strings spanning lines, function definitions and later calls, loops, strings holding { } [ ] ; \" \\\" \\\\ and high bytes, lines longer than 4096 bytes) laid out by the tape into a stream: indentation, comments holding brackets/quotes on any line whose end is outside a string, blank lines inside blocks and array literals, comment-only and blank lines between statements, final newline present or absent. The stream is executed (a) in process by the real node.Loop over the real FReader on a real file, (b) by the built cmd/calc in file mode, (c) by cmd/calc as REPL with stdin redirected from a regular file, (d) by cmd/calc -eval for self-contained statements. Oracle (real vs real): an in-process twin session is given the statements one at a time; file-mode stdout must equal the concatenated write() output, REPL stdout must equal banner + per statement output + '> ' + displayed value, -eval stdout must equal output + value; exit status 0. Non-trivial = >= 2 multi-line statements, or a special character inside a string/comment, or no final newline. Distinct = hash of statement kinds and layout decisions."
}
func (C16) Assumptions() []string {
	return []string{
		"failing statements are six self-contained one-liners (alone or inside a block after a write); their reports are compared as a marker because they quote instruction indices; richer failures are C08's and C19's",
		"comments are never placed on the last line of the stream when it has no final newline, nor on the last line of a REPL statement or in -eval text: a comment reaching end of input spins the lexer (C06, not claimed)",
		"interactive terminal editing is out of reach: the REPL is driven through readline's non-terminal path",
	}
}
func (C16) RealComponents() []string {
	return []string{"cmd/calc main (subprocess: file mode, REPL via readline non-tty path, -eval)", "node.Loop + FReader + processInput (in process, real file)", "parser, STRewrite, bytecoder, vm, memory, builtin"}
}
func (C16) StubComponents() []string {
	return []string{"none: the oracle is a twin session of the same real code fed statement by statement"}
}

// a statement as a list of lines; ctx[i] describes where the end of line i is:
// 'b' inside a block between statements, 'a' inside an array literal after [ or ,,
// 's' inside a string literal, 't' end of the statement.
type c16Stmt struct {
	lines    []string
	ctx      []byte
	evalable bool
	kind     string
}

func (s c16Stmt) canon() string { return strings.Join(s.lines, "\n") }

const c16Special = "{}[];(),:#\"\\ xyz01%d"

func c16String(tp *tape.Tape, allowNewline bool) (lit string, special bool, newlines int) {
	n := tp.Draw(10)
	var b strings.Builder
	b.WriteByte('"')
	for i := 0; i < n; i++ {
		c := c16Special[tp.Draw(len(c16Special))]
		switch c {
		case '"':
			b.WriteString("\\\"")
			special = true
		case '\\':
			// an escaped backslash; never a lone backslash before the closing quote
			b.WriteString("\\\\")
			special = true
		default:
			if strings.IndexByte("{}[];", c) >= 0 {
				special = true
			}
			b.WriteByte(c)
		}
		if allowNewline && tp.Draw(6) == 0 {
			b.WriteByte('\n')
			newlines++
			// interior lines that look like nothing (blank, spaces only) or like a comment
			switch tp.Draw(7) {
			case 6:
				b.WriteString("#!/bin/sh -e\n")
				newlines++
				special = true
			case 0:
				b.WriteByte('\n')
				newlines++
			case 1:
				b.WriteString("  \n")
				newlines++
			case 2:
				b.WriteString("; not a comment\n")
				newlines++
				special = true
			}
		}
		if tp.Draw(12) == 0 {
			b.WriteString([]string{"é", "£", "世", "ß", "→"}[tp.Draw(5)]) // valid UTF-8 only: readline decodes runes
		}
	}
	b.WriteByte('"')
	return b.String(), special, newlines
}

func splitStringLines(pre, lit, post string) ([]string, []byte) {
	parts := strings.Split(lit, "\n")
	lines := make([]string, len(parts))
	ctx := make([]byte, len(parts))
	for i, p := range parts {
		lines[i] = p
		ctx[i] = 's'
	}
	lines[0] = pre + lines[0]
	lines[len(lines)-1] += post
	ctx[len(ctx)-1] = 't'
	return lines, ctx
}

// c16Globals are the global arrays and strings assigned so far in the run being generated
// (one run at a time per process).
var c16Globals []string

// c16BlockFns are functions bound inside earlier compound statements (their code and constants
// were compiled as part of a statement that is long finished).
var c16BlockFns []string

func drawC16Stmt(tp *tape.Tape, idx int, r *core.Result, defined *[]string) c16Stmt {
	gv := "g" + string(rune('a'+idx))
	if len(c16BlockFns) > 0 && tp.Draw(6) == 0 {
		fn := c16BlockFns[tp.Draw(len(c16BlockFns))]
		return c16Stmt{[]string{fmt.Sprintf("%s(%d, %d) + %d", fn, tp.Draw(9), tp.Draw(5), 100+tp.Draw(900))}, []byte{'t'}, false, "call-of-block-defined-function"}
	}
	if len(c16Globals) > 0 && tp.Draw(6) == 0 {
		// look again at a value an earlier statement bound (and, in the REPL, echoed)
		g := c16Globals[tp.Draw(len(c16Globals))]
		return c16Stmt{[]string{"write(toa(" + g + ") + \"|\" + toa(#" + g + "))"}, []byte{'t'}, false, "reread-global"}
	}
	switch tp.Draw(17) {
	case 16: // a built-in used as a plain value (no call anywhere in the statement)
		f := []string{"toa", "aton", "write", "fromto", "elems", "indices", "read"}[tp.Draw(7)]
		g := []string{"toa", "aton", "fromto"}[tp.Draw(3)]
		switch tp.Draw(3) {
		case 0:
			return c16Stmt{[]string{gv + " = " + f}, []byte{'t'}, true, "builtin-as-value"}
		case 1:
			return c16Stmt{[]string{"[" + f + ", " + g + ", 1]"}, []byte{'t'}, true, "builtin-as-value"}
		default:
			return c16Stmt{[]string{f + " == " + g}, []byte{'t'}, true, "builtin-as-value"}
		}
	case 14, 15: // a statement that ends in a runtime error: the session goes on in every mode
		r.Inc("F1.failing_statement", 1)
		f := []string{"[1, 2][7]", "10 / (3 - 3)", "\"s\" * 2", "nosuchfn(1)", "aton(\"zz\")", "1 + nosuchvar"}[tp.Draw(6)]
		if tp.Bool() {
			return c16Stmt{[]string{"{", "write(\"pre;\")", f, "write(\"never\")", "}"}, []byte{'b', 'b', 'b', 'b', 't'}, true, "failing-block"}
		}
		return c16Stmt{[]string{f}, []byte{'t'}, true, "failing"}
	case 12, 13: // a statement whose value is a string: the REPL echoes it, -eval prints it
		lit, sp, nl := c16String(tp, tp.Bool())
		if sp {
			r.Inc("F7.special_chars_in_string", 1)
		}
		if nl > 0 {
			r.Inc("F7.string_spanning_lines", 1)
		}
		l, c := splitStringLines("", lit, "")
		if tp.Bool() {
			l, c = splitStringLines("\"<\" + ", lit, " + \">\"")
		}
		return c16Stmt{l, c, true, "string-value"}
	case 11: // a block that defines and calls a function with parameters and locals (self-contained: -eval too)
		fn := "h" + string(rune('a'+idx))
		c16BlockFns = append(c16BlockFns, fn)
		k := tp.Draw(9)
		return c16Stmt{[]string{"{", fn + " = (n, o) -> {", "m = n * 2 + o", fmt.Sprintf("write(\"%s(\" + toa(m) + \")\")", fn), "m + 1", "}", fmt.Sprintf("%s(%d, %d)", fn, k, tp.Draw(5)), "}"},
			[]byte{'b', 'b', 'b', 'b', 'b', 'b', 'b', 't'}, true, "block-def-and-call"}
	case 0:
		lit, sp, _ := c16String(tp, false)
		if sp {
			r.Inc("F7.special_chars_in_string", 1)
		}
		return c16Stmt{[]string{"write(" + lit + ")"}, []byte{'t'}, true, "write-string"}
	case 1:
		return c16Stmt{[]string{fmt.Sprintf("%s = %d * %d + %d", gv, tp.Draw(20), tp.Draw(20), tp.Draw(9))}, []byte{'t'}, false, "assign"}
	case 2:
		lit, sp, _ := c16String(tp, false)
		if sp {
			r.Inc("F7.special_chars_in_string", 1)
		}
		return c16Stmt{[]string{"{", "a = " + fmt.Sprint(tp.Draw(9)), "write(" + lit + ")", "a + 2", "}"}, []byte{'b', 'b', 'b', 'b', 't'}, true, "block"}
	case 3:
		r.Inc("F7.array_literal_spanning_lines", 1)
		c16Globals = append(c16Globals, gv)
		if tp.Bool() { // strings that hold separators, quotes, brackets or nothing at all
			return c16Stmt{[]string{gv + " = [\"a,b\", \"\",", "[\"[x]\", \"q\\\"q\"],", fmt.Sprint(tp.Draw(9)) + "]"}, []byte{'a', 'a', 't'}, false, "array-of-strings-multiline"}
		}
		return c16Stmt{[]string{gv + " = [" + fmt.Sprint(tp.Draw(9)) + ", 2,", "3,", "[4, 5], \"]\"]"}, []byte{'a', 'a', 't'}, false, "array-multiline"}
	case 4:
		lit, sp, nl := c16String(tp, true)
		if sp {
			r.Inc("F7.special_chars_in_string", 1)
		}
		if nl > 0 {
			r.Inc("F7.string_spanning_lines", 1)
		}
		if tp.Bool() {
			l, c := splitStringLines("write(", lit, ")")
			return c16Stmt{l, c, true, "write-string-multiline"}
		}
		l, c := splitStringLines("write(#", lit, ")")
		return c16Stmt{l, c, true, "write-len-string-multiline"}
	case 5:
		fn := "f" + string(rune('a'+idx))
		*defined = append(*defined, fn)
		return c16Stmt{[]string{fn + " = (n) -> {", "m = n * " + fmt.Sprint(1+tp.Draw(5)), "write(\"" + fn + "{\")", "m + 1", "}"}, []byte{'b', 'b', 'b', 'b', 't'}, false, "function-def"}
	case 6:
		if len(*defined) > 0 {
			fn := (*defined)[tp.Draw(len(*defined))]
			return c16Stmt{[]string{fn + "(" + fmt.Sprint(tp.Draw(9)) + ")"}, []byte{'t'}, false, "call"}
		}
		return c16Stmt{[]string{fmt.Sprint(tp.Draw(100))}, []byte{'t'}, true, "literal"}
	case 7:
		return c16Stmt{[]string{fmt.Sprintf("for i <- fromto(0, %d) {", 1+tp.Draw(4)), "write(toa(i) + \";}\")", "}"}, []byte{'b', 'b', 't'}, true, "for"}
	case 8:
		return c16Stmt{[]string{fmt.Sprintf("if %d < %d {", tp.Draw(5), tp.Draw(5)), "write(\"then[\")", "1", "} else {", "write(\"else]\")", "2", "}"}, []byte{'b', 'b', 'b', 'b', 'b', 'b', 't'}, true, "ifelse"}
	case 9:
		n := 4090 + tp.Draw(3000)
		r.Inc("F7.line_longer_than_4096", 1)
		return c16Stmt{[]string{"write(#\"" + strings.Repeat("x{", n/2) + "\")"}, []byte{'t'}, true, "long-line"}
	default:
		lit, _, _ := c16String(tp, false)
		return c16Stmt{[]string{"{", "write(\"}\")", "write(" + lit + ")", "write(\"{[\")", fmt.Sprint(tp.Draw(9)), "}"}, []byte{'b', 'b', 'b', 'b', 'b', 't'}, true, "block-with-bracket-strings"}
	}
}

var c16Comments = []string{"; note", "; { open", "; } close", "; [ \" ;", ";\"", "; ]]] }}}", ";"}

// layout renders a statement for a stream; lastLineComment allows a comment on the last line.
func layout(tp *tape.Tape, st c16Stmt, lastLineComment bool, r *core.Result) []string {
	var out []string
	inStr := false
	for i, l := range st.lines {
		line := l
		if !inStr && tp.Draw(3) == 0 {
			line = strings.Repeat(" ", 1+tp.Draw(4)) + line
		}
		endInStr := st.ctx[i] == 's'
		if !endInStr && (i < len(st.lines)-1 || lastLineComment) && tp.Draw(4) == 0 {
			line += " " + c16Comments[tp.Draw(len(c16Comments))]
			r.Inc("F7.comment_with_brackets_or_quotes", 1)
		}
		out = append(out, line)
		if (st.ctx[i] == 'b' || st.ctx[i] == 'a') && tp.Draw(5) == 0 {
			out = append(out, "")
			r.Inc("F7.blank_line_inside_statement", 1)
		}
		inStr = endInStr
	}
	return out
}

func (C16) Run(tp *tape.Tape) core.Result {
	var r core.Result
	n := 1 + tp.Draw(8)
	c16Globals = nil
	c16BlockFns = nil
	var defined []string
	stmts := make([]c16Stmt, n)
	key := core.NewHash()
	multi := 0
	for i := range stmts {
		stmts[i] = drawC16Stmt(tp, i, &r, &defined)
		key = key.Str(stmts[i].kind).Int(len(stmts[i].lines))
		if len(stmts[i].lines) > 1 {
			multi++
		}
	}
	finalNewline := tp.Draw(3) != 0
	h := &Hist{Flavour: "all modes"}
	trace := core.NewHash()

	// ---- twin: statements one at a time
	twin := sess.New()
	type exp struct {
		out, val, str string
		failed        bool
	}
	exps := make([]exp, n)
	for i, st := range stmts {
		h.add(st.canon())
		outs := twin.Submit(st.canon()+"\n", true)
		r.Statements++
		o := outs[len(outs)-1]
		r.Instructions += o.Steps
		if strings.HasPrefix(st.kind, "failing") && len(outs) == 1 && o.Kind == sess.KError {
			exps[i] = exp{out: o.Out, failed: true}
			trace = trace.Str(o.Out).Str(o.Err)
			continue
		}
		if len(outs) != 1 || o.Kind != sess.KValue {
			if o.Kind == sess.KPanic {
				r.Violation = panicViolation("twin-panic", o, h)
			} else {
				r.Discard = "twin statement did not evaluate: " + o.Brief()
			}
			r.Sample = h
			return r
		}
		if st.kind == "string-value" && o.Val != "\""+o.Str+"\"" {
			// the REPL shows a string value as its characters between quotes (value.Display's contract);
			// -eval and write() show the characters themselves
			r.Violation = &core.Violation{Clause: "repl-echo-of-string", Detail: fmt.Sprintf("the REPL would echo %q for a string whose characters are %q", o.Val, o.Str), History: h}
			r.Sample = h
			return r
		}
		exps[i] = exp{out: o.Out, val: o.Val, str: o.Str}
		trace = trace.Str(o.Out).Str(o.Val)
	}
	wantScript, wantRepl := "", "calc repl\n"
	for _, e := range exps {
		wantScript += e.out
		if e.failed { // reports quote instruction indices, which differ between the modes' code: compared as a marker
			wantScript += "RUNTIME ERROR"
			wantRepl += e.out + "RUNTIME ERROR"
			continue
		}
		wantRepl += e.out + "> " + e.val + "\n"
	}
	// optionally the program ends itself: a last statement writes and calls exit(code) from inside a
	// function. The twin never runs it (exit would end the simulator); what it must do is known:
	// print, then end the process with that status, in every mode.
	wantCode := 0
	var exitStmt *c16Stmt
	if tp.Draw(4) == 0 {
		wantCode = 1 + tp.Draw(9)
		es := c16Stmt{[]string{"{", "bye = (c) -> {", "write(\"bye\")", "exit(c)", "}", fmt.Sprintf("bye(%d)", wantCode), "write(\"not reached\")", "}"},
			[]byte{'b', 'b', 'b', 'b', 'b', 'b', 'b', 't'}, true, "exit"}
		exitStmt = &es
		stmts = append(stmts, es)
		n++
		h.add(es.canon())
		wantScript += "bye"
		wantRepl += "bye"
		r.Inc("F7.program_ends_with_exit", 1)
	}

	// ---- streams
	var script, repl []string
	for i, st := range stmts {
		last := i == n-1
		if tp.Draw(5) == 0 {
			script = append(script, c16Comments[tp.Draw(len(c16Comments))])
			r.Inc("F7.comment_only_line", 1)
		}
		if tp.Draw(5) == 0 {
			script = append(script, "")
			repl = append(repl, "")
			r.Inc("F7.blank_line_between_statements", 1)
		}
		sl := layout(tp, st, !last || finalNewline, &r)
		rl := layout(tp, st, false, &r)
		// a one-line statement may share its physical line with the one-line statement before it
		if i > 0 && len(st.lines) == 1 && len(stmts[i-1].lines) == 1 && len(st.lines[0]) < 200 && len(stmts[i-1].lines[0]) < 200 && tp.Draw(4) == 0 &&
			len(script) > 0 && len(repl) > 0 && script[len(script)-1] != "" && repl[len(repl)-1] != "" && !strings.Contains(script[len(script)-1], ";") && !strings.Contains(repl[len(repl)-1], ";") &&
			!strings.Contains(st.lines[0], ";") && st.lines[0][0] >= 'a' && st.lines[0][0] <= 'z' {
			// (calc has no statement separator: a statement that starts with a bracket, a sign, a digit or a
			// quote could continue the expression before it, so only statements starting with a name share a line)
			script[len(script)-1] += " " + strings.TrimSpace(st.lines[0])
			repl[len(repl)-1] += " " + strings.TrimSpace(st.lines[0])
			r.Inc("F7.statements_sharing_a_line", 1)
			continue
		}
		script = append(script, sl...)
		repl = append(repl, rl...)
	}
	scriptText := strings.Join(script, "\n")
	if finalNewline {
		scriptText += "\n"
	} else {
		r.Inc("F7.no_final_newline", 1)
	}
	replText := strings.Join(repl, "\n")
	if tp.Draw(3) != 0 {
		replText += "\n"
	}
	h.Notes = fmt.Sprintf("script stream (%d bytes, final newline %v): %s", len(scriptText), finalNewline, trunc(scriptText, 1500))
	key = key.Str(shapeOf(trunc(scriptText, 400))).Int(len(repl))

	dir, err := os.MkdirTemp("", "simcalc-c16-")
	if err != nil {
		r.Discard = "mkdtemp: " + err.Error()
		return r
	}
	defer os.RemoveAll(dir)
	sf, rf := dir+"/s.calc", dir+"/r.txt"
	os.WriteFile(sf, []byte(scriptText), 0o644)
	os.WriteFile(rf, []byte(replText), 0o644)

	fail := func(clause, detail string) core.Result {
		r.Violation = &core.Violation{Clause: clause, Detail: detail, History: h}
		return r
	}

	// (b),(c),(d): the built binary
	if _, err := os.Stat(CalcBinary); err != nil {
		r.Discard = "cmd/calc binary not built"
		return r
	}
	run := func(stdin string, args ...string) (string, int) {
		out, code, hung := runBinary(stdin, nil, args...)
		if hung {
			return out, -99
		}
		return collapseReports(out), code
	}
	got, code := run("", sf)
	if code != wantCode || got != wantScript {
		return finishC16(fail("file-mode-binary", fmt.Sprintf("cmd/calc <file> exit %d (-99 = did not terminate) printed %q, want %q", code, trunc(got, 300), trunc(wantScript, 300))), key, trace, h, multi, finalNewline)
	}
	r.Inc("mode.file_binary", 1)

	// (a) in process: real Loop + FReader on the real file (not when the program calls exit():
	// that would end the simulator process; the binary runs above and below cover it)
	if exitStmt == nil {
		r.Inc("mode.file_in_process", 1)
	}
	func() {
		if exitStmt != nil {
			return
		}
		defer func() {
			if p := recover(); p != nil {
				r.Violation = &core.Violation{Clause: "loop-panic", Detail: fmt.Sprint(p), History: h}
			}
		}()
		s := sess.New()
		s.Activate()
		fr := node.NewFReader(sf)
		defer fr.Close()
		node.Loop(fr, parser.Type{}, s.VM, false)
		got := collapseReports(sess.TakeOutput())
		if got != wantScript {
			r.Violation = &core.Violation{Clause: "file-mode-in-process", Detail: fmt.Sprintf("node.Loop over the file printed %q, statements one at a time print %q", trunc(got, 300), trunc(wantScript, 300)), History: h}
		}
	}()
	if r.Violation != nil {
		return finishC16(r, key, trace, h, multi, finalNewline)
	}

	got, code = run(rf)
	if code != wantCode || got != wantRepl {
		return finishC16(fail("repl-mode-binary", fmt.Sprintf("cmd/calc REPL exit %d (-99 = did not terminate) printed %q, want %q; stdin was %q", code, trunc(got, 300), trunc(wantRepl, 300), trunc(replText, 300))), key, trace, h, multi, finalNewline)
	}
	r.Inc("mode.repl_binary", 1)
	if exitStmt != nil {
		got, code := run("", "-eval", exitStmt.canon())
		if code != wantCode || got != "bye" {
			return finishC16(fail("eval-mode-binary", fmt.Sprintf("cmd/calc -eval of the exit statement: exit status %d, printed %q; want status %d and \"bye\"", code, trunc(got, 200), wantCode)), key, trace, h, multi, finalNewline)
		}
		r.Inc("mode.eval_binary", 1)
	}
	evals := 0
	for i, st := range stmts {
		if !st.evalable || evals >= 2 || len(st.canon()) > 100000 || st.kind == "exit" {
			continue
		}
		evals++
		// -eval starts from a fresh interpreter: so does its twin
		fresh := sess.New()
		o := fresh.Submit(st.canon()+"\n", true)[0]
		want := o.Out + o.Str + "\n"
		got, code := run("", "-eval", st.canon())
		if strings.HasPrefix(st.kind, "failing") {
			// a failing statement: the same output and report as in the other modes, and the same exit
			// status as the script and the REPL gave for the session that held it (checked above: 0)
			if o.Kind != sess.KError || code != 0 || !strings.HasPrefix(got, o.Out+"RUNTIME ERROR") || strings.TrimSpace(got[len(o.Out+"RUNTIME ERROR"):]) != "" {
				return finishC16(fail("eval-mode-binary", fmt.Sprintf("cmd/calc -eval of failing statement %d: exit status %d (file and REPL mode: 0), printed %q, want %q", i+1, code, trunc(got, 300), o.Out+"RUNTIME ERROR")), key, trace, h, multi, finalNewline)
			}
			r.Inc("mode.eval_binary_failing_statement", 1)
			continue
		}
		if code != 0 || got != want {
			return finishC16(fail("eval-mode-binary", fmt.Sprintf("cmd/calc -eval of statement %d exit %d printed %q, want %q", i+1, code, trunc(got, 300), trunc(want, 300))), key, trace, h, multi, finalNewline)
		}
		r.Inc("mode.eval_binary", 1)
	}
	return finishC16(r, key, trace, h, multi, finalNewline)
}

func finishC16(r core.Result, key, trace core.Hash64, h *Hist, multi int, finalNewline bool) core.Result {
	r.NonTrivial = multi >= 2 || r.Stats["F7.special_chars_in_string"] > 0 || r.Stats["F7.comment_with_brackets_or_quotes"] > 0 || !finalNewline
	r.Key = uint64(key)
	r.TraceHash = uint64(trace)
	r.Sample = h
	return r
}

// RunScript: Steps are the statements, Stdin is the literal script text; file mode (in process and binary)
// must print what the statements print one at a time.
func (C16) RunScript(raw json.RawMessage) core.Result {
	var r core.Result
	sc, h, err := parseScript(raw)
	if err != nil {
		r.Discard = err.Error()
		return r
	}
	twin := sess.New()
	want := ""
	for _, st := range sc.Steps {
		for _, o := range twin.Submit(st+"\n", true) {
			want += o.Out
		}
	}
	dir, err := os.MkdirTemp("", "simcalc-c16-")
	if err != nil {
		r.Discard = err.Error()
		return r
	}
	defer os.RemoveAll(dir)
	sf := dir + "/s.calc"
	os.WriteFile(sf, []byte(sc.Stdin), 0o644)
	h.Notes = "script text: " + sc.Stdin
	if len(sc.Want) == 1 && sc.Want[0] == "eval" {
		fresh := sess.New()
		o := fresh.Submit(sc.Steps[0]+"\n", true)[0]
		ob, _, _ := runBinary("", nil, "-eval", sc.Steps[0])
		if string(ob) != o.Out+o.Str+"\n" {
			r.Violation = &core.Violation{Clause: "eval-mode-binary", Detail: fmt.Sprintf("-eval printed %q, want %q", trunc(string(ob), 300), o.Out+o.Str+"\n"), History: h}
		}
		return r
	}
	if got, code, hung := runBinary("", nil, sf); hung || code != 0 || got != want {
		r.Violation = &core.Violation{Clause: "file-mode-binary", Detail: fmt.Sprintf("cmd/calc <file> exit %d hung=%v printed %q, want %q", code, hung, trunc(got, 300), trunc(want, 300)), History: h}
		return r
	}
	func() {
		defer func() {
			if p := recover(); p != nil {
				r.Violation = &core.Violation{Clause: "loop-panic", Detail: fmt.Sprint(p), History: h}
			}
		}()
		s := sess.New()
		s.Activate()
		fr := node.NewFReader(sf)
		defer fr.Close()
		node.Loop(fr, parser.Type{}, s.VM, false)
		if got := sess.TakeOutput(); got != want {
			r.Violation = &core.Violation{Clause: "file-mode-in-process", Detail: fmt.Sprintf("printed %q, want %q", trunc(got, 300), trunc(want, 300)), History: h}
		}
	}()
	return r
}
