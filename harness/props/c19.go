package props

import (
	"encoding/json"
	"fmt"
	"regexp"
	"strconv"
	"strings"

	"github.com/paulsonkoly/calc/types/bytecode"

	"verif/core"
	"verif/gen"
	"verif/model"
	"verif/sess"
	"verif/tape"
)

// C19: runtime error reports point at the real failure (fault sites enumerated).
type C19 struct{}

func init() { core.Register(C19{}) }

func (C19) ID() string    { return "C19" }
func (C19) Level() string { return "fault_enumeration" }
func (C19) Runs(t core.Tier) int {
	if t == core.Thorough {
		return 1_200_000
	}
	return 40_000
}
func (C19) Rule() string {
	return "Fault sites are enumerated: error class (division by zero, nil, type, index, arity, conversion, non-boolean condition, nil assignment) x site (top level; call depth 1..6 through named functions; through a parameter holding a function; through a closure; inside a loop body; inside a generator; inside a generator of a generator; inside a zip member; inside a built-in) x whether the failing dynamic point is fixed in the text or chosen at run time by simulated stdin x REPL/script flavour: that table is run completely in both tiers. Seeded runs add generated sessions (free-form functions, generators, loops) in which a fault carrier fails at a drawn depth/iteration/resume. Oracle: the captured report is parsed; its class line must equal the reference model's error class; the instruction marked --> must be the instruction the step hook saw last, its opcode must belong to the failing operator's family, every operand value printed must be the abbreviated rendering of the operands the model saw, in order; for the failing context and each ancestor the frames listed must be the model's active calls innermost first with call-site names and current parameter values; no 'giving up' line; producing the report must not panic; the machine must be at rest afterwards. Non-trivial = failure at depth >= 2 or in a context other than main. Distinct = (class, site, variant, flavour) or hash of the generated session."
}
func (C19) Assumptions() []string {
	return []string{
		"the reference model's bookkeeping of active calls per coroutine (seeded with a copy of the creator's innermost call) is the oracle for backtraces",
		"temp-register opcodes print only the operands they fetch; printed operands must be a suffix of the model's operand list",
		"a negated condition folded into the jump reports the jump instruction; `x = x + 1` reports INC",
		"crash shapes that never reach a report (DESIGN.md 5.3) are out of reach",
	}
}
func (C19) RealComponents() []string { return C09{}.RealComponents() }
func (C19) StubComponents() []string {
	return append(C09{}.StubComponents(), "oracle side: reference interpreter", "stdin byte source for run-time chosen fault sites")
}

// ---------------------------------------------------------------- report parsing

type repFrame struct {
	Name string
	Args []string
}
type repLine struct {
	IP   int
	Hex  uint64
	Text string // opcode and operands as printed
}
type report struct {
	Window   []repLine
	Class    string
	MarkIP   int
	MarkOp   string
	Operands string // text after ';'
	Contexts [][]repFrame
	GaveUp   bool
	Marks    int
}

var (
	lineRE  = regexp.MustCompile(`^(?:-->|   ) (\d+): 0X([0-9A-F]+) : ([^;]*?) ?(?:;.*)?$`)
	markRE  = regexp.MustCompile(`^--> (\d+): 0X[0-9A-F]+ : ([A-Z0-9]+) ?(.*)$`)
	frameRE = regexp.MustCompile(`^IP: (\d+) ([a-z]+)\(\) args: ?(.*)$`)
	argRE   = regexp.MustCompile(`arg\[(\d+)\]: `)
)

func parseReport(rep string) (report, error) {
	var r report
	lines := strings.Split(rep, "\n")
	if len(lines) == 0 || !strings.HasPrefix(lines[0], "RUNTIME ERROR : ") {
		return r, fmt.Errorf("report does not start with RUNTIME ERROR")
	}
	r.Class = strings.TrimPrefix(lines[0], "RUNTIME ERROR : ")
	r.MarkIP = -1
	inStack := false
	for _, l := range lines[1:] {
		if m := lineRE.FindStringSubmatch(l); m != nil && len(r.Contexts) == 0 {
			ip, _ := strconv.Atoi(m[1])
			hx, _ := strconv.ParseUint(m[2], 16, 64)
			r.Window = append(r.Window, repLine{ip, hx, strings.TrimSpace(m[3])})
		}
		switch {
		case strings.HasPrefix(l, "--> "):
			m := markRE.FindStringSubmatch(l)
			if m == nil {
				return r, fmt.Errorf("cannot parse marked line %q", l)
			}
			r.Marks++
			r.MarkIP, _ = strconv.Atoi(m[1])
			r.MarkOp = m[2]
			rest := m[3]
			if i := strings.Index(rest, "; "); i >= 0 {
				r.Operands = rest[i+2:]
			} else if strings.HasSuffix(rest, ";") {
				r.Operands = ""
			}
		case strings.HasPrefix(l, "memory context "):
			r.Contexts = append(r.Contexts, nil)
		case strings.HasPrefix(l, "= stack ="):
			inStack = true
		case strings.HasPrefix(l, "====="):
			inStack = false
		case strings.Contains(l, "giving up"):
			r.GaveUp = true
		case inStack && strings.HasPrefix(l, "IP: "):
			m := frameRE.FindStringSubmatch(l)
			if m == nil || len(r.Contexts) == 0 {
				return r, fmt.Errorf("cannot parse frame line %q", l)
			}
			f := repFrame{Name: m[2]}
			if m[3] != "" {
				idx := argRE.FindAllStringIndex(m[3], -1)
				for k, span := range idx {
					end := len(m[3])
					if k+1 < len(idx) {
						end = idx[k+1][0] - 1 // separated by one blank
					}
					f.Args = append(f.Args, m[3][span[1]:end])
				}
			}
			r.Contexts[len(r.Contexts)-1] = append(r.Contexts[len(r.Contexts)-1], f)
		}
	}
	return r, nil
}

var opFamily = map[string][]string{
	"+": {"ADD", "ADDTMP", "INC"}, "-": {"SUB", "SUBTMP"}, "*": {"MUL", "MULTMP"}, "/": {"DIV", "DIVTMP"}, "%": {"MOD", "MODTMP"},
	"&": {"AND", "ANDTMP"}, "&&": {"AND", "ANDTMP"}, "|": {"OR", "ORTMP"}, "||": {"OR", "ORTMP"},
	"<": {"LT", "LTTMP"}, ">": {"GT", "GTTMP"}, "<=": {"LE", "LETMP"}, ">=": {"GE", "GETMP"}, "==": {"EQ", "EQTMP"}, "!=": {"NE", "NETMP"},
	"<<": {"LSH", "LSHTMP"}, ">>": {"RSH", "RSHTMP"},
	"u#": {"LEN", "LENTMP"}, "u!": {"NOT", "NOTTMP", "JMPF", "JMPT"}, "u~": {"FLIP", "FLIPTMP"},
	"index": {"IX1"}, "slice": {"IX2"}, "assign": {"MOV"}, "call": {"CALL"}, "cond": {"JMPF", "JMPT"}, "aton": {"ATON"}, "read": {"READ"},
}

// operandText renders one operand from the kind and address the VM itself decodes and executes with.
func operandText(kind uint64, addr int) string {
	switch kind {
	case bytecode.AddrDS:
		return fmt.Sprintf("DS[%d]", addr)
	case bytecode.AddrCls:
		return fmt.Sprintf("CLS[%d]", addr)
	case bytecode.AddrLcl:
		return fmt.Sprintf("LCL[%d]", addr)
	case bytecode.AddrGbl:
		return fmt.Sprintf("GBL[%d]", addr)
	case bytecode.AddrStck:
		return "STCK"
	case bytecode.AddrTmp:
		return "TMP"
	case bytecode.AddrImm:
		return fmt.Sprint(addr)
	}
	return ""
}

// checkWindow: the instructions listed around the failure must be the code that is really there
// (consecutive indices around the failing one, the same 64-bit words as the code segment), and each
// line's opcode and operands must read as the opcode, operand kinds and addresses the VM decodes
// when it executes that word (jump distances included, with their sign).
func checkWindow(rp report, cs []bytecode.Type, failIP int) (clause, detail string) {
	if len(rp.Window) == 0 {
		return "report-window", "no instruction listed"
	}
	if failIP < rp.Window[0].IP || failIP > rp.Window[len(rp.Window)-1].IP {
		return "report-window", fmt.Sprintf("the failing instruction %d is not among the listed instructions %d..%d", failIP, rp.Window[0].IP, rp.Window[len(rp.Window)-1].IP)
	}
	for k, ln := range rp.Window {
		if k > 0 && ln.IP != rp.Window[k-1].IP+1 {
			return "report-window", fmt.Sprintf("listed instruction indices are not consecutive: %d after %d", ln.IP, rp.Window[k-1].IP)
		}
		if ln.IP < 0 || ln.IP >= len(cs) || ln.IP < failIP-20 || ln.IP > failIP+20 {
			// how many neighbours are listed is the report's choice; that they are neighbours is not
			return "report-window", fmt.Sprintf("listed instruction %d is not around the failing instruction %d", ln.IP, failIP)
		}
		in := cs[ln.IP]
		if uint64(in) != ln.Hex {
			return "report-window", fmt.Sprintf("instruction %d is %#016X in the code segment, the report prints %#016X", ln.IP, uint64(in), ln.Hex)
		}
		var parts []string
		// the mnemonic of an instruction is the name the instruction set gives its opcode (looked up
		// by identifier here, not through the printer under test); opcodes this table does not know
		// yet are taken as printed
		mn, known := c19Mnemonic[in.OpCode()]
		if !known {
			mn = fmt.Sprint(in.OpCode())
		}
		parts = append(parts, mn)
		for _, t := range []string{operandText(in.Src2(), in.Src2Addr()), operandText(in.Src1(), in.Src1Addr()), operandText(in.Src0(), in.Src0Addr())} {
			if t != "" {
				parts = append(parts, t)
			}
		}
		if want := strings.Join(parts, " "); want != strings.Join(strings.Fields(ln.Text), " ") {
			return "report-disassembly", fmt.Sprintf("instruction %d executes as %q, the report prints %q", ln.IP, want, ln.Text)
		}
	}
	return "", ""
}

// c19Mnemonic: opcode (by its identifier in types/bytecode) -> the name the report must show for it.
var c19Mnemonic = map[bytecode.OpCode]string{
	bytecode.NOP: "NOP", bytecode.PUSH: "PUSH", bytecode.POP: "POP", bytecode.MOV: "MOV", bytecode.ADD: "ADD", bytecode.SUB: "SUB",
	bytecode.MUL: "MUL", bytecode.DIV: "DIV", bytecode.MOD: "MOD", bytecode.INC: "INC", bytecode.NOT: "NOT", bytecode.AND: "AND",
	bytecode.OR: "OR", bytecode.LT: "LT", bytecode.GT: "GT", bytecode.LE: "LE", bytecode.GE: "GE", bytecode.EQ: "EQ",
	bytecode.NE: "NE", bytecode.LSH: "LSH", bytecode.RSH: "RSH", bytecode.FLIP: "FLIP", bytecode.IX1: "IX1", bytecode.IX2: "IX2",
	bytecode.LEN: "LEN", bytecode.ARR: "ARR", bytecode.JMP: "JMP", bytecode.JMPF: "JMPF", bytecode.JMPT: "JMPT", bytecode.FUNC: "FUNC",
	bytecode.CALL: "CALL", bytecode.RET: "RET", bytecode.CCONT: "CCONT", bytecode.DCONT: "DCONT", bytecode.RCONT: "RCONT", bytecode.SCONT: "SCONT",
	bytecode.YIELD: "YIELD", bytecode.READ: "READ", bytecode.WRITE: "WRITE", bytecode.ATON: "ATON", bytecode.TOA: "TOA", bytecode.EXIT: "EXIT",
	bytecode.PUSHTMP: "PUSHTMP", bytecode.ADDTMP: "ADDTMP", bytecode.SUBTMP: "SUBTMP", bytecode.MULTMP: "MULTMP", bytecode.DIVTMP: "DIVTMP", bytecode.MODTMP: "MODTMP",
	bytecode.NOTTMP: "NOTTMP", bytecode.ANDTMP: "ANDTMP", bytecode.ORTMP: "ORTMP", bytecode.LTTMP: "LTTMP", bytecode.GTTMP: "GTTMP", bytecode.LETMP: "LETMP",
	bytecode.GETMP: "GETMP", bytecode.EQTMP: "EQTMP", bytecode.NETMP: "NETMP", bytecode.LSHTMP: "LSHTMP", bytecode.RSHTMP: "RSHTMP", bytecode.FLIPTMP: "FLIPTMP",
	bytecode.LENTMP: "LENTMP",
}

// shownAs reports whether printed is an acceptable rendering of a value whose full rendering is
// full: the full text, or a proper prefix of it of at least 8 bytes followed by "..." (how long
// the report lets a value be, and whether it cuts on a byte or a character boundary, is the
// report's choice; what it shows must be the value's own text).
func shownAs(printed, full string) bool {
	if printed == full {
		return true
	}
	if !strings.HasSuffix(printed, "...") {
		return false
	}
	p := printed[:len(printed)-3]
	return len(p) >= 8 && len(p) < len(full) && strings.HasPrefix(full, p)
}

// shownList matches a printed ", "-separated list against the full renderings of its elements.
func shownList(printed string, fulls []string) bool {
	if len(fulls) == 0 {
		return printed == ""
	}
	if len(fulls) == 1 {
		return shownAs(printed, fulls[0])
	}
	// the first element ends at some ", " (renderings may contain ", " themselves: try each)
	for i := 0; i+2 <= len(printed); i++ {
		if printed[i:i+2] == ", " && shownAs(printed[:i], fulls[0]) && shownList(printed[i+2:], fulls[1:]) {
			return true
		}
	}
	return false
}

// checkReport compares a real outcome's report with the model's error.
func checkReport(o sess.Outcome, re *model.RunError, cs []bytecode.Type) (clause, detail string) {
	rp, err := parseReport(o.Report)
	if err != nil {
		return "report-unparsable", err.Error() + "\n" + trunc(o.Report, 600)
	}
	if c, d := checkWindow(rp, cs, o.FailIP); c != "" {
		return c, d + "\n" + trunc(o.Report, 500)
	}
	if rp.GaveUp {
		return "report-gave-up", trunc(o.Report, 800)
	}
	want := re.Class
	got := rp.Class
	if strings.HasPrefix(got, "read error") {
		got = "read error"
	}
	if got != want {
		return "report-class", fmt.Sprintf("report says %q, the failure is %q", rp.Class, want)
	}
	if rp.Marks != 1 {
		return "report-mark-count", fmt.Sprintf("%d instructions marked", rp.Marks)
	}
	if rp.MarkIP != o.FailIP {
		return "report-marked-instruction", fmt.Sprintf("report marks instruction %d, the instruction that failed (last one dispatched) is %d\n%s", rp.MarkIP, o.FailIP, trunc(o.Report, 500))
	}
	if fam, ok := opFamily[re.Op]; ok {
		in := false
		for _, f := range fam {
			if f == rp.MarkOp {
				in = true
			}
		}
		if !in {
			return "report-opcode-family", fmt.Sprintf("failing operation %q, marked opcode %s", re.Op, rp.MarkOp)
		}
	}
	// operands printed must be a suffix of the model's operands, in order
	if rp.Operands != "" {
		full := strings.Join(re.FullOps, ", ")
		ok := false
		for k := 0; k < len(re.FullOps); k++ {
			if shownList(rp.Operands, re.FullOps[k:]) {
				ok = true
			}
		}
		if !ok {
			return "report-operands", fmt.Sprintf("report prints operands %q, the failing operation saw %q", rp.Operands, full)
		}
	}
	if len(rp.Contexts) != len(re.Stacks) {
		return "report-context-count", fmt.Sprintf("report lists %d memory contexts, the failure happened %d contexts deep\n%s", len(rp.Contexts), len(re.Stacks), trunc(o.Report, 800))
	}
	for ci := range re.Stacks {
		ms, rs := re.Stacks[ci], rp.Contexts[ci]
		if len(ms) != len(rs) {
			return "report-frame-count", fmt.Sprintf("context %d: report lists %d calls %v, active calls were %v", ci, len(rs), rs, ms)
		}
		for fi := range ms {
			if ms[fi].Name != rs[fi].Name {
				return "report-frame-name", fmt.Sprintf("context %d frame %d: report says %s(), active call was %s() (innermost first: %v)", ci, fi, rs[fi].Name, ms[fi].Name, ms)
			}
			argsOK := len(ms[fi].Full) == len(rs[fi].Args)
			for ai := 0; argsOK && ai < len(rs[fi].Args); ai++ {
				argsOK = shownAs(rs[fi].Args[ai], ms[fi].Full[ai])
			}
			if !argsOK {
				return "report-frame-args", fmt.Sprintf("context %d frame %d %s(): report prints args %q, current parameter values are %q", ci, fi, ms[fi].Name, rs[fi].Args, ms[fi].Full)
			}
		}
	}
	return "", ""
}

// ---------------------------------------------------------------- enumerated fault sites

type c19Class struct {
	name string
	expr func(c string) string // failing expression over trigger variable c
	trig string                // trigger value (calc literal)
	safe string                // a trigger value for which expr succeeds with an int
}

var c19Classes = []c19Class{
	{"zero-div", func(c string) string { return "10 / " + c }, "0", "2"},
	{"type", func(c string) string { return c + " + 1" }, "\"s\"", "2"},
	{"nil", func(c string) string { return c + " * 2" }, "nosuchname", "2"},
	{"index", func(c string) string { return "[1, 2, 3][" + c + "]" }, "7", "1"},
	{"arity", func(c string) string { return "one(" + c + ", 2)" }, "1", ""},
	{"conversion", func(c string) string { return "aton(" + c + ")" }, "\"zz\"", "\"12\""},
	{"cond-not-bool", func(c string) string { return "pick(" + c + ")" }, "3", "true"},
	{"nil-assign", func(c string) string { return "asg(" + c + ")" }, "nosuchname", "2"},
	{"cond-int-from-logic", func(c string) string { return "pickb(" + c + ")" }, "6", "true"},
	{"builtin-arg-type", func(c string) string { return "cnt(" + c + ")" }, "5", "[1]"},
}

var c19Helpers = []string{
	"one = (a) -> a",
	"pick = (c) -> if c {\n1\n} else {\n2\n}",
	"asg = (c) -> {\nz = c\n1\n}",
	"pickb = (c) -> {\nn = 0\nif c & c {\nn = 1\n}\nwhile c | c {\nreturn n + 2\n}\nn\n}",
	"cnt = (c) -> {\nn = 0\nfor e <- elems(c) {\nn = n + 1\n}\nn\n}",
	"map = (f, it) -> for e <- it() yield f(e)",
}

// sites: each builds definitions and a top-level failing statement around EXPR(c).
type c19Site struct {
	name  string
	build func(expr func(string) string, trig string) (defs []string, stmt string)
	deep  bool
}

var c19Sites = []c19Site{
	{"top-level", func(e func(string) string, t string) ([]string, string) { return nil, e(t) }, false},
	{"depth-1", func(e func(string) string, t string) ([]string, string) {
		return []string{"fa = (c, k) -> " + e("c")}, "fa(" + t + ", 1)"
	}, false},
	{"depth-3-named", func(e func(string) string, t string) ([]string, string) {
		return []string{"fc = (c, k) -> " + e("c"), "fb = (c, k) -> fc(c, k + 1)", "fa = (c, k) -> fb(c, k * 2)"}, "fa(" + t + ", 1)"
	}, true},
	{"depth-6-recursive", func(e func(string) string, t string) ([]string, string) {
		return []string{"fr = (c, d) -> if d <= 0 {\n" + e("c") + "\n} else {\nfr(c, d - 1)\n}"}, "fr(" + t + ", 5)"
	}, true},
	{"param-holding-function", func(e func(string) string, t string) ([]string, string) {
		return []string{"bad = (c) -> " + e("c"), "ap = (f, c) -> f(c)", "apb = (g, c) -> ap(g, c)"}, "apb(bad, " + t + ")"
	}, true},
	{"closure", func(e func(string) string, t string) ([]string, string) {
		return []string{"mk = (k) -> (c) -> {\nq = " + e("c") + "\nq + k\n}", "cl = mk(4)", "call = (c) -> cl(c)"}, "call(" + t + ")"
	}, true},
	{"reassigned-parameter", func(e func(string) string, t string) ([]string, string) {
		return []string{"rp = (c, k) -> {\nk = k + 40\n" + e("c") + "\n}"}, "rp(" + t + ", 2)"
	}, false},
	{"loop-body", func(e func(string) string, t string) ([]string, string) {
		return []string{"lb = (c, m) -> {\ns = 0\nfor e <- fromto(0, 4) {\nif e == m {\ns = s + " + e("c") + "\n}\n}\ns\n}"}, "lb(" + t + ", 2)"
	}, false},
	{"generator", func(e func(string) string, t string) ([]string, string) {
		return []string{"ge = (c) -> {\nyield 1\nz = " + e("c") + "\nyield 2\n}", "us = (c, w) -> {\nfor e <- ge(c) {\nw = w + e\n}\nw\n}"}, "us(" + t + ", 10)"
	}, true},
	{"generator-of-generator", func(e func(string) string, t string) ([]string, string) {
		return []string{"ge = (c) -> {\nyield 1\nz = " + e("c") + "\nyield 2\n}", "gg = (c) -> for e <- ge(c) yield e + 1", "uu = (c) -> {\nw = 0\nfor e <- gg(c) {\nw = w + e\n}\nw\n}", "outer = (c) -> uu(c)"}, "outer(" + t + ")"
	}, true},
	{"generator-via-map", func(e func(string) string, t string) ([]string, string) {
		return []string{"bad = (c) -> " + e("c"), "um = (c) -> {\nw = 0\nfor e <- map(bad, () -> elems([c])) {\nw = w + 1\n}\nw\n}"}, "um(" + t + ")"
	}, true},
	{"zip-member", func(e func(string) string, t string) ([]string, string) {
		return []string{"ge = (c) -> {\nyield 1\nz = " + e("c") + "\nyield 2\n}", "uz = (c) -> {\nw = 0\nfor a, b <- fromto(0, 5), ge(c) {\nw = w + a + b\n}\nw\n}"}, "uz(" + t + ")"
	}, true},
	// the same sites after other loops of the same statement have come and gone: the failing
	// generator runs in a recycled context, on a stack that has held other frames
	{"generator-after-loop", func(e func(string) string, t string) ([]string, string) {
		return []string{"ge = (c) -> {\nyield 1\nz = " + e("c") + "\nyield 2\n}", "us = (c, w) -> {\nfor q <- fromto(0, 2) {\nw = w + q\n}\nfor e <- ge(c) {\nw = w + e\n}\nw\n}"}, "us(" + t + ", 10)"
	}, true},
	{"generator-after-composed-loops", func(e func(string) string, t string) ([]string, string) {
		return []string{"ge = (c) -> {\nyield 1\nz = " + e("c") + "\nyield 2\n}", "gg = (c) -> for e <- ge(c) yield e + 1",
			"uu = (c) -> {\nw = 0\nfor a <- map((x) -> x + 1, () -> fromto(0, 3)) {\nfor b <- fromto(0, 2) {\nw = w + a + b\n}\n}\nfor e <- gg(c) {\nw = w + e\n}\nw\n}", "outer = (c) -> uu(c)"}, "outer(" + t + ")"
	}, true},
	{"generator-after-abandoned-loop", func(e func(string) string, t string) ([]string, string) {
		return []string{"ge = (c) -> {\nyield 1\nz = " + e("c") + "\nyield 2\n}", "first = (n) -> {\nfor a <- map((x) -> x * 2, () -> fromto(0, n)) {\nif a >= 2 {\nreturn a\n}\n}\n0\n}",
			"ua = (c, w) -> {\nw = w + first(5)\nfor e <- ge(c) {\nw = w + e\n}\nw\n}"}, "ua(" + t + ", 10)"
	}, true},
	{"zip-member-after-zip", func(e func(string) string, t string) ([]string, string) {
		return []string{"ge = (c) -> {\nyield 1\nz = " + e("c") + "\nyield 2\n}", "uz = (c) -> {\nw = 0\nfor a, b <- fromto(0, 2), elems(\"xyz\") {\nw = w + a\n}\nfor a, b <- fromto(0, 5), ge(c) {\nw = w + a + b\n}\nw\n}"}, "uz(" + t + ")"
	}, true},
	{"loop-body-after-deep-recursion-and-loop", func(e func(string) string, t string) ([]string, string) {
		return []string{"dp = (n) -> if n <= 0 {\n0\n} else {\n1 + dp(n - 1)\n}", "lb = (c, m) -> {\ns = dp(150)\nfor q <- fromto(0, 3) {\ns = s + q\n}\nfor e <- fromto(0, 4) {\nif e == m {\ns = s + " + e("c") + "\n}\n}\ns\n}"}, "lb(" + t + ", 2)"
	}, false},
	{"generator-in-wide-frame-after-loop", func(e func(string) string, t string) ([]string, string) {
		pad := ""
		for i := 0; i < 140; i++ {
			pad += fmt.Sprintf("%s = %d\n", padName(i), i)
		}
		return []string{"ge = (c) -> {\nyield 1\nz = " + e("c") + "\nyield 2\n}", "uw = (c, w) -> {\n" + pad + "for q <- fromto(0, 2) {\nw = w + q\n}\nfor e <- ge(c) {\nw = w + e\n}\nw\n}"}, "uw(" + t + ", 10)"
	}, true},
	// parameter values that would mean something to a formatting routine
	{"string-parameters-with-percent", func(e func(string) string, t string) ([]string, string) {
		return []string{"fp = (c, label, note) -> " + e("c"), "fq = (c, label) -> fp(c, label + \"%s\", \"50% off\")"}, "fq(" + t + ", \"100%d\")"
	}, true},
	{"generator-with-percent-parameters", func(e func(string) string, t string) ([]string, string) {
		return []string{"ge = (c, tag) -> {\nyield 1\nz = " + e("c") + "\nyield 2\n}", "us = (c, tag) -> {\nw = 0\nfor e <- ge(c, [tag + \"%v\", \"%!\"]) {\nw = w + e\n}\nw\n}"}, "us(" + t + ", \"%d%%\")"
	}, true},
	// a generator at top level (no call frame below it) that runs in a recycled context and fails
	// before its first yield
	{"top-level-second-loop-early-failure", func(e func(string) string, t string) ([]string, string) {
		return []string{"gf = (c, k) -> {\nz = " + e("c") + "\nyield k\n}"}, "{\nfor ta <- fromto(0, 2) {\ntb = ta\n}\nfor tv <- gf(" + t + ", 1) {\ntw = tv\n}\n}"
	}, true},
	{"top-level-nested-loops-second-round", func(e func(string) string, t string) ([]string, string) {
		return []string{"gk = (c, k) -> {\nif k > 0 {\nz = " + e("c") + "\n}\nyield k\n}"}, "for ta <- fromto(0, 3) {\nfor tv <- gk(" + t + ", ta) {\ntw = tv\n}\n}"
	}, true},
	// a failure beneath a call made from a loop condition, not on its first evaluation
	{"while-condition-call", func(e func(string) string, t string) ([]string, string) {
		return []string{"more = (c, k) -> {\nif k >= 2 {\nz = " + e("c") + "\n}\nk < 5\n}", "scan = (c) -> {\nk = 0\nwhile more(c, k) {\nk = k + 1\n}\nk\n}"}, "scan(" + t + ")"
	}, true},
	{"while-condition-call-value-used", func(e func(string) string, t string) ([]string, string) {
		return []string{"more = (c, k) -> {\nif k >= 1 {\nz = " + e("c") + "\n}\nk < 5\n}", "scan = (c) -> {\nk = 0\nwhile more(c, k) {\nk = k + 1\nk * 2\n}\n}", "outer = (c) -> scan(c)"}, "outer(" + t + ")"
	}, true},
	// more active calls than any listing could be tempted to shorten
	{"depth-130-recursive", func(e func(string) string, t string) ([]string, string) {
		return []string{"fr = (c, d) -> if d <= 0 {\n" + e("c") + "\n} else {\nfr(c, d - 1)\n}"}, "fr(" + t + ", 129)"
	}, true},
	{"depth-130-inside-generator", func(e func(string) string, t string) ([]string, string) {
		return []string{"fr = (c, d) -> if d <= 0 {\n" + e("c") + "\n} else {\nfr(c, d - 1)\n}", "gd = (c) -> {\nyield 1\nz = fr(c, 110)\nyield 2\n}", "ud = (c) -> {\nw = 0\nfor e <- gd(c) {\nw = w + e\n}\nw\n}"}, "ud(" + t + ")"
	}, true},
	// the failing instruction word occurs again right next to it
	{"same-operation-twice", func(e func(string) string, t string) ([]string, string) {
		return []string{"tw = (c, k) -> {\na = " + e("c") + "\nb = " + e("c") + "\na\n}", "tx = (c) -> [tw(c, 1), tw(c, 1)]"}, "tx(" + t + ")"
	}, true},
	{"multi-byte-string-parameters", func(e func(string) string, t string) ([]string, string) {
		return []string{"fp = (c, label, note) -> " + e("c"), "fq = (c, label) -> fp(c, label + \"語\", [\"ab日本語のテキスト\", \"é\"])"}, "fq(" + t + ", \"ab日本語のテキスト\")"
	}, true},
	{"top-level-loop-generator", func(e func(string) string, t string) ([]string, string) {
		return []string{"ge = (c) -> {\nyield 1\nz = " + e("c") + "\nyield 2\n}"}, "for tv <- ge(" + t + ") {\ntw = tv\n}"
	}, true},
}

func padName(i int) string { return gen.PadName(i) }

// c19Twins: the failing instruction (local operands only, so the 64-bit word is the same) occurs
// twice within the listing window; exactly one line may be marked.
var c19Twins = [][2]string{
	{"pair = (k, c) -> [k / c, k / c]", "pair(7, 0)"},
	{"pair = (k, c) -> {\nx = k[c]\ny = k[c]\nx\n}", "pair([1, 2], 5)"},
	{"pair = (k, c) -> {\nx = k + c\ny = k + c\nx\n}", "pair(\"s\", 1)"},
	{"pair = (k, c) -> {\nx = -k\ny = -k\nx + c\n}", "pair(\"s\", 1)"},
}

func (C19) Cases(t core.Tier) int {
	return len(c19Classes)*len(c19Sites)*2*2 + len(c19Twins)*2
}
func (C19) Exhaustive(core.Tier) bool { return true }

// runC19 executes defs + failing statement in the real session and the model and compares the report.
func runC19(defs []string, stmt string, stdin string, repl bool, r *core.Result, h *Hist) {
	s := sess.New()
	in := newModel()
	sim := &sess.SimStdin{}
	if stdin != "" {
		sim.Feed([]byte(stdin))
		in.Stdin = []byte(stdin)
	}
	sess.UseStdin(sim)
	for _, d := range defs {
		h.add(d)
		outs := s.Submit(d+"\n", repl)
		mo, ok := modelSubmit(in, d+"\n")
		r.Statements++
		o := outs[len(outs)-1]
		if o.Kind == sess.KPanic {
			r.Violation = panicViolation("panic", o, h)
			return
		}
		if !ok || o.Kind != sess.KValue || mo[len(mo)-1].Kind != sess.KValue {
			r.Discard = "a definition did not evaluate: " + trunc(d, 40) + ": " + o.Brief()
			return
		}
	}
	h.Steps = append(h.Steps, Step{Src: stmt, Fault: "F1 (failing statement)"})
	outs := s.Submit(stmt+"\n", repl)
	mo, ok := modelSubmit(in, stmt+"\n")
	r.Statements++
	o := outs[len(outs)-1]
	r.Instructions += o.Steps
	if o.Kind == sess.KPanic {
		r.Violation = panicViolation("report-panic", o, h)
		return
	}
	if !ok {
		r.Discard = "statement does not parse"
		return
	}
	m := mo[len(mo)-1]
	if o.Kind == sess.KBudget || m.Kind == sess.KBudget {
		r.Discard = "budget"
		return
	}
	if m.Kind != sess.KError {
		if o.Kind == sess.KError {
			r.Violation = &core.Violation{Clause: "unexpected-error", Detail: fmt.Sprintf("real: %s; model: %s\n%s", o.Brief(), m.Brief(), trunc(o.Report, 400)), History: h}
		} else {
			r.Discard = "statement did not fail"
		}
		return
	}
	if o.Kind != sess.KError {
		r.Violation = &core.Violation{Clause: "no-error-reported", Detail: fmt.Sprintf("the statement fails with %s (model) but the interpreter returned %s", m.Err, o.Brief()), History: h}
		return
	}
	if o.Out != m.Out {
		r.Violation = &core.Violation{Clause: "output-before-failure", Detail: fmt.Sprintf("real printed %q before failing, model %q", o.Out, m.Out), History: h}
		return
	}
	if c, d := checkReport(o, m.RE, s.CS); c != "" {
		r.Violation = &core.Violation{Clause: c, Detail: d, History: h}
		return
	}
	if !o.After.AtRest(0) {
		r.Violation = &core.Violation{Clause: "at-rest-after-report", Detail: o.After.String(), History: h}
		return
	}
	r.Inc("reports_checked", 1)
	r.Inc("class."+m.Err, 1)
	r.Inc(fmt.Sprintf("contexts_in_report.%d", len(m.RE.Stacks)), 1)
	if len(m.RE.Stacks) > 1 || (len(m.RE.Stacks) == 1 && len(m.RE.Stacks[0]) >= 2) {
		r.NonTrivial = true
	}
}

func (C19) RunCase(i int) core.Result {
	var r core.Result
	if tbl := len(c19Classes) * len(c19Sites) * 2 * 2; i >= tbl {
		tw := c19Twins[(i-tbl)/2]
		repl := (i-tbl)%2 == 0
		h := &Hist{Flavour: flavour(repl), Notes: "the failing instruction word occurs twice within the listing"}
		runC19([]string{tw[0]}, tw[1], "", repl, &r, h)
		r.Key = uint64(core.NewHash().Str("twin").Int(i))
		r.TraceHash = r.Key
		r.Sample = h
		r.Inc("site.failing-word-twice-in-window", 1)
		return r
	}
	repl := i%2 == 0
	i /= 2
	viaStdin := i%2 == 1
	i /= 2
	site := c19Sites[i%len(c19Sites)]
	cls := c19Classes[i/len(c19Sites)]
	h := &Hist{Flavour: flavour(repl), Notes: fmt.Sprintf("class %s at site %s, trigger chosen by stdin: %v", cls.name, site.name, viaStdin)}
	defs := append([]string{}, c19Helpers...)
	trig := cls.trig
	stdin := ""
	if viaStdin {
		// the environment decides at run time whether (and so where) the program fails:
		// the trigger is selected by a line read from simulated stdin
		if cls.safe == "" {
			r.Discard = "class has no data trigger"
			r.Key = uint64(core.NewHash().Str(cls.name).Str(site.name).Int(i))
			return r
		}
		stdin = "1\n"
		defs = append(defs, "chomp = (s) -> {\nn = #s\nif n == 0 {\nreturn s\n}\nk = n - 1\nc = s[k]\nif c == \"\\n\" {\ns[0:k]\n} else {\ns\n}\n}", "gl = read()", "gsel = aton(chomp(gl))", "gtrig = if gsel == 1 {\n"+cls.trig+"\n} else {\n"+cls.safe+"\n}")
		// `x = if ...` is not an expression statement form: bind through a function
		defs[len(defs)-1] = "choose = (s) -> if s == 1 {\n" + cls.trig + "\n} else {\n" + cls.safe + "\n}"
		if cls.name == "nil" || cls.name == "nil-assign" {
			// a nil trigger cannot be stored in a variable (assigning nil is itself an error): select the name instead
			trig = cls.trig
		} else {
			defs = append(defs, "gtrig = choose(gsel)")
			trig = "gtrig"
		}
		r.Inc("F1.site_chosen_by_stdin", 1)
	}
	d, stmt := site.build(cls.expr, trig)
	defs = append(defs, d...)
	runC19(defs, stmt, stdin, repl, &r, h)
	r.Key = uint64(core.NewHash().Str(cls.name).Str(site.name).Str(h.Flavour).Int(map[bool]int{false: 0, true: 1}[viaStdin]))
	r.TraceHash = r.Key
	r.Sample = h
	r.Inc("site."+site.name, 1)
	return r
}

// Run: generated sessions with a fault carrier failing at a drawn dynamic point.
func (C19) Run(tp *tape.Tape) core.Result {
	var r core.Result
	sw := drawSwarm(tp)
	sw.Prelude = true
	g := newGen(tp, sw)
	defs := append(append([]string{}, BombSrc...), buildDefs(g, sw)...)
	h := &Hist{Flavour: flavour(sw.Repl)}
	top := g.TopScope(false)
	for i := 0; i < tp.Draw(3); i++ {
		defs = append(defs, g.TopStmt(top)...)
	}
	d := tp.Draw(7)
	var stmt string
	switch tp.Draw(8) {
	case 0:
		stmt = fmt.Sprintf("bomb(%d, 0)", d)
	case 1:
		stmt = fmt.Sprintf("bidx(%d, [1, 2, 3])", d)
	case 2:
		stmt = fmt.Sprintf("btyp(%d, \"s\")", d)
	case 3:
		n := 2 + tp.Draw(5)
		stmt = fmt.Sprintf("bloop(%d, %d, %d)", n, tp.Draw(n), d)
	case 4:
		n := 2 + tp.Draw(5)
		stmt = fmt.Sprintf("bnest(%d, %d)", n, tp.Draw(n))
	case 5:
		n := 2 + tp.Draw(5)
		stmt = fmt.Sprintf("bzip(%d, %d)", n, tp.Draw(n))
	case 6:
		n := 2 + tp.Draw(5)
		stmt = fmt.Sprintf("for qv <- bgen(%d, %d, 0) {\nqw = qv\n}", n, tp.Draw(n))
	default:
		// a generated function called with a failing argument expression evaluated first
		stmt = "sum(() -> map((x) -> bomb(x, x - 3), () -> fromto(0, 6)))"
	}
	// wrap under generated depth
	if k := tp.Draw(4); k > 0 && !strings.HasPrefix(stmt, "for ") {
		def, call := g.DeepCall(stmt, []int{0, 1, 3, 17}[k])
		defs = append(defs, def)
		stmt = call
	}
	// history inside the same statement: loops that have come and gone (recycled contexts), an
	// abandoned loop, a deep recursion (grown stack), before the failing call
	if k := tp.Draw(5); k > 0 && !strings.HasPrefix(stmt, "for ") {
		defs = append(defs,
			"warm = (n) -> {\ns = 0\nfor a <- map((x) -> x + 1, () -> fromto(0, n)) {\nfor b <- fromto(0, 2) {\ns = s + a + b\n}\n}\ns\n}",
			"quit = (n) -> {\nfor a <- filter((x) -> x % 2 == 0, () -> fromto(0, n)) {\nif a >= 2 {\nreturn a\n}\n}\n0\n}")
		pre := []string{"warm(2)", "quit(6)", "deep(120)", "warm(3) + quit(4)"}[k-1]
		defs = append(defs, "wz = (v) -> {\nv = v + "+pre+"\n"+stmt+"\n}")
		stmt = fmt.Sprintf("wz(%d)", tp.Draw(9))
		r.Inc("F8.failing_call_after_loops_of_the_same_statement", 1)
	}
	runC19(defs, stmt, "", sw.Repl, &r, h)
	if strings.HasPrefix(r.Discard, "a definition did not evaluate") {
		r.Discard = "a statement before the fault did not evaluate"
	}
	r.Key = uint64(core.NewHash().Str(shapeOf(stmt)).Str(h.Flavour).Str(shapeOf(strings.Join(defs[len(BombSrc):], "\n"))))
	r.TraceHash = r.Key
	r.Sample = h
	return r
}

// RunScript: the last step fails; its report is compared with the model.
func (C19) RunScript(raw json.RawMessage) core.Result {
	var r core.Result
	sc, h, err := parseScript(raw)
	if err != nil || len(sc.Steps) == 0 {
		r.Discard = "bad script"
		return r
	}
	h.Steps = nil
	runC19(sc.Steps[:len(sc.Steps)-1], sc.Steps[len(sc.Steps)-1], sc.Stdin, sc.Flavour == "repl", &r, h)
	return r
}
