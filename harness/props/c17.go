package props

import (
	"bytes"
	"encoding/json"
	"fmt"
	"os"
	"strconv"
	"strings"

	"verif/core"
	"verif/sess"
	"verif/tape"
)

// C17: built-ins keep their contracts; the read() clause is the simulation target.
type C17 struct{}

func init() { core.Register(C17{}) }

func (C17) ID() string    { return "C17" }
func (C17) Level() string { return "exploration" }
func (C17) Runs(t core.Tier) int {
	if t == core.Thorough {
		return 10_000_000
	}
	return 200_000
}
func (C17) Rule() string {
	return "Mode R (2 of 3 runs): stdin content L1..Ln (bytes without newline, lengths 0..10000, optional unterminated tail) is delivered by the simulated reader under a tape-chosen schedule (whole, per line, random cut points, 1-byte chunks, cuts inside lines, chunks and lines >= 4096 bytes, optional transient I/O error at a line boundary, EOF position) while a calc session issues read() from top level, nested calls, loop bodies, generators and zips, within and across statements; oracle: the i-th successful read returns Li (with or without its newline, consistently), no byte lost or duplicated, a read with no complete line left is a runtime read error, every later statement still works; 1 run in 40 repeats the session with the built binary (stdin from a regular file and from a pre-filled pipe). Mode P (1 of 3 runs): sessions exercising toa/write/aton/fromto/elems/indices and wrong argument types/counts, compared statement by statement with the reference model, numeric strings routed through the environment (write -> captured -> fed back as stdin -> read -> aton). Mode P is ordinary assertion, not schedule search. Non-trivial = >= 2 reads with a chunk boundary inside a line or several lines in one chunk (R); distinct = hash of line lengths, chunking, fault plan and read placements."
}
func (C17) Assumptions() []string {
	return []string{
		"the Readme does not say whether read() keeps the newline; both are accepted, consistently within a run",
		"injected I/O errors are placed at line boundaries only: an error in the middle of a line legitimately loses that unacknowledged line",
		"a transient error is delivered once (bufio semantics); the next read continues with the next line",
		"mode P uses the reference model (DESIGN.md section 4) as oracle",
	}
}
func (C17) RealComponents() []string {
	return append(C09{}.RealComponents(), "vm READ through the shared bufio reader", "cmd/calc binary (1 run in 40, subprocess)")
}
func (C17) StubComponents() []string {
	return []string{"in-process stdin byte source (SimStdin behind vm.SetStdin); os.Stdin additionally points at a regular file with the same bytes"}
}

var rdDefs = []string{
	"rd = () -> {\nx = read()\nwrite(\"<\" + toa(#x) + \":\" + x + \">\")\nx\n}",
	"rdd = (d) -> if d <= 0 {\nrd()\n} else {\nrdd(d - 1)\n}",
	"grd = (k) -> {\ni = 0\nwhile i < k {\nyield rd()\ni = i + 1\n}\n}",
	"rdf = (k) -> {\nn = 0\nfor l <- grd(k) {\nn = n + 1\n}\nn\n}",
}

const lineAlphabet = "abcxyz019 \t;{}[]\"\\<>:,.#-+=()%dsv"

func drawLine(tp *tape.Tape) []byte {
	var n int
	switch tp.Draw(12) {
	case 0:
		n = 0
	case 9:
		n = 100 + tp.Draw(300)
	case 10:
		n = 4090 + tp.Draw(12)
	case 11:
		n = 4097 + tp.Draw(6000)
	default:
		n = 1 + tp.Draw(20)
	}
	b := make([]byte, n)
	if n > 64 {
		// long lines: cheap deterministic filler with a few drawn bytes
		for i := range b {
			b[i] = lineAlphabet[(i*7+n)%len(lineAlphabet)]
		}
		for j := 0; j < 4; j++ {
			b[tp.Draw(n)] = lineAlphabet[tp.Draw(len(lineAlphabet))]
		}
		return b
	}
	for i := range b {
		if tp.Draw(16) == 0 {
			b[i] = byte(0x80 + tp.Draw(0x80))
		} else {
			b[i] = lineAlphabet[tp.Draw(len(lineAlphabet))]
		}
	}
	return b
}

type readStmt struct {
	src   string
	reads int
	// errAfter: after its reads the statement ends in a runtime error that has nothing to do with
	// input (division by zero at depth): lines not yet read must still be there afterwards
	errAfter bool
	// keep: the line read is kept in a global; recheck: that global is printed again as a record
	// (a string returned by read() is a value like any other: later reads must not change it)
	keep, recheck bool
}

func drawReadStmt(tp *tape.Tape) readStmt {
	k := 1 + tp.Draw(3)
	switch tp.Draw(11) {
	case 10: // the reading generator is consumed by a loop inside a function call (possibly several calls deep)
		if tp.Bool() {
			return readStmt{src: fmt.Sprintf("rdf(%d)", k), reads: k}
		}
		return readStmt{src: fmt.Sprintf("ga = [rdf(%d), rdf(1)]", k), reads: k + 1}
	case 8:
		return readStmt{src: "{\nrd()\nga = 1 / (2 - 2)\nrd()\n}", reads: 1, errAfter: true}
	case 9:
		if tp.Bool() {
			return readStmt{src: "ga = 7 / (3 - 3)", errAfter: true}
		}
		return readStmt{src: fmt.Sprintf("for l <- grd(%d) {\nga = [1, 2][5]\n}", k), reads: 1, errAfter: true}
	case 0:
		return readStmt{src: "rd()", reads: 1}
	case 1:
		return readStmt{src: fmt.Sprintf("rdd(%d)", tp.Draw(6)), reads: 1}
	case 2:
		return readStmt{src: fmt.Sprintf("for i <- fromto(0, %d) {\nrd()\n}", k), reads: k}
	case 3:
		return readStmt{src: fmt.Sprintf("for l <- grd(%d) {\nwrite(\"b\")\n}", k), reads: k}
	case 4:
		return readStmt{src: "{\nrd()\nrd()\n}", reads: 2}
	case 5:
		return readStmt{src: "ga = rd() + rd()", reads: 2}
	case 6:
		return readStmt{src: fmt.Sprintf("for a, b <- grd(%d), grd(%d) {\nwrite(\"z\")\n}", k, k), reads: 2 * k}
	default:
		return readStmt{src: fmt.Sprintf("for i <- fromto(0, %d) {\nfor l <- grd(1) {\nwrite(\"n\")\n}\n}", k), reads: k}
	}
}

// parseReads extracts the <len:bytes> records from captured output.
func parseReads(out string) (vals []string, ok bool) {
	i := 0
	for i < len(out) {
		if out[i] != '<' {
			i++
			continue
		}
		j := i + 1
		for j < len(out) && out[j] >= '0' && out[j] <= '9' {
			j++
		}
		if j == i+1 || j >= len(out) || out[j] != ':' {
			return vals, false
		}
		n, _ := strconv.Atoi(out[i+1 : j])
		if j+1+n >= len(out) || out[j+1+n] != '>' {
			return vals, false
		}
		vals = append(vals, out[j+1:j+1+n])
		i = j + 2 + n
	}
	return vals, true
}

func (p C17) Run(tp *tape.Tape) core.Result {
	if tp.Draw(3) == 2 {
		return p.pure(tp)
	}
	return p.reads(tp)
}

func (C17) reads(tp *tape.Tape) core.Result {
	var r core.Result
	repl := !tp.Bool()
	h := &Hist{Flavour: flavour(repl)}
	key := core.NewHash().Str("R").Str(h.Flavour)
	trace := core.NewHash()

	// ---- environment: content and delivery schedule
	n := tp.Draw(9)
	lines := make([][]byte, n)
	var content []byte
	bounds := []int{0} // offsets of line boundaries
	for i := range lines {
		lines[i] = drawLine(tp)
		content = append(content, lines[i]...)
		content = append(content, '\n')
		bounds = append(bounds, len(content))
		key = key.Int(len(lines[i]))
	}
	var tail []byte
	if tp.Draw(4) == 0 {
		tail = drawLine(tp)
		if len(tail) == 0 {
			tail = []byte("t")
		}
		content = append(content, tail...)
	}
	cuts := map[int]bool{}
	style := tp.Draw(6)
	switch style {
	case 0: // whole
	case 1: // per line
		for _, b := range bounds {
			cuts[b] = true
		}
	case 2, 3: // random cut points
		k := 1 + tp.Draw(6)
		for i := 0; i < k && len(content) > 0; i++ {
			cuts[tp.Draw(len(content)+1)] = true
		}
	case 4: // one byte per chunk (bounded)
		if len(content) <= 600 {
			for i := range content {
				cuts[i] = true
			}
		}
	default: // a cut just inside every line
		for i := 0; i+1 < len(bounds); i++ {
			if bounds[i+1]-bounds[i] > 1 {
				cuts[bounds[i]+1+tp.Draw(bounds[i+1]-bounds[i]-1)] = true
			}
		}
	}
	errLine := -1 // transient error in front of line errLine (0-based), at a line boundary
	if tp.Draw(6) == 0 {
		errLine = tp.Draw(n + 1)
		cuts[bounds[errLine]] = true
	}
	key = key.Int(style).Int(errLine).Int(len(tail))
	sim := &sess.SimStdin{ErrAt: map[int]error{}}
	last := 0
	midLineCut, multiLineChunk := false, false
	for off := 1; off <= len(content); off++ {
		if cuts[off] || off == len(content) {
			chunk := content[last:off]
			if errLine >= 0 && last == bounds[errLine] {
				sim.ErrAt[len(sim.Chunks)] = sess.ErrSimIO
			}
			sim.Feed(chunk)
			if chunk[len(chunk)-1] != '\n' {
				midLineCut = true
			}
			if bytes.Count(chunk, []byte{'\n'}) > 1 {
				multiLineChunk = true
			}
			last = off
		}
	}
	if errLine >= 0 && bounds[errLine] == len(content) {
		sim.ErrAt[len(sim.Chunks)] = sess.ErrSimIO
	}
	envDesc := fmt.Sprintf("stdin: %d lines (lengths %v), tail %d bytes, %d chunks (style %d), transient error before line %d", n, lens(lines), len(tail), len(sim.Chunks), style, errLine)
	h.Notes = envDesc

	// ---- workload
	s := sess.New()
	sess.UseStdin(sim)
	restore := sess.UseRealStdinFile(content)
	defer restore()
	nst := 1 + tp.Draw(6)
	stmts := make([]readStmt, nst)
	for i := range stmts {
		stmts[i] = drawReadStmt(tp)
		key = key.Str(shapeOf(stmts[i].src))
	}
	if nst >= 2 && tp.Draw(3) == 0 {
		stmts[0] = readStmt{src: "gkeep = rd()", reads: 1, keep: true}
		again := readStmt{src: "write(\"<\" + toa(#gkeep) + \":\" + gkeep + \">\")", recheck: true}
		stmts = append(stmts, again)
		if nst >= 3 {
			stmts = append(stmts[:2], append([]readStmt{again}, stmts[2:]...)...)
		}
		r.Inc("R.line_kept_across_later_reads", 1)
	}

	// ---- expectation
	nextLine := 0
	errPending := errLine >= 0
	conv := ""       // "nl" or "bare", decided by the first successful read
	var kept *string // the record of the line bound to gkeep, once that read succeeded
	totalReads := 0
	submit := func(src string) (sess.Outcome, bool) {
		h.add(src)
		outs := s.Submit(src+"\n", repl)
		r.Statements++
		o := outs[len(outs)-1]
		r.Instructions += o.Steps
		trace = trace.Str(o.Kind).Str(o.Out).Str(o.Err)
		if o.Kind == sess.KPanic {
			r.Violation = panicViolation("panic", o, h)
			return o, true
		}
		return o, false
	}
	for _, d := range rdDefs {
		if o, stop := submit(d); stop || o.Kind != sess.KValue {
			if !stop {
				r.Discard = "definition failed: " + o.Brief()
			}
			goto done
		}
	}
	for si, st := range stmts {
		o, stop := submit(st.src)
		if stop {
			goto done
		}
		if st.recheck {
			if kept == nil {
				continue // the keeping read found no line: gkeep is unbound, the statement fails, nothing to compare
			}
			got, okParse := parseReads(o.Out)
			if !okParse || len(got) != 1 || got[0] != *kept {
				r.Violation = &core.Violation{Clause: "R.kept-line-changed", Detail: fmt.Sprintf("statement %d: the line kept from the first read now prints as %q, it was read as %q; %s", si+1, trunc(o.Out, 120), trunc(*kept, 120), envDesc), History: h}
				goto done
			}
			r.Inc("R.kept_line_rechecked", 1)
			continue
		}
		got, okParse := parseReads(o.Out)
		if !okParse {
			r.Violation = &core.Violation{Clause: "R.output-garbled", Detail: fmt.Sprintf("statement %d output not a sequence of read records: %q", si+1, trunc(o.Out, 200)), History: h}
			goto done
		}
		// walk the reads this statement attempts
		var want []string
		failed := false
		tailReturned := false
		for k := 0; k < st.reads; k++ {
			if errPending && nextLine == errLine {
				errPending = false
				failed = true
				r.Inc("F6.transient_error_hit_a_read", 1)
				break
			}
			if nextLine < n {
				want = append(want, string(lines[nextLine]))
				nextLine++
				continue
			}
			failed = true // no complete line left
			break
		}
		// a read that returns the unterminated tail instead of failing is also acceptable
		if failed && nextLine >= n && len(tail) > 0 && len(got) == len(want)+1 && got[len(got)-1] == string(tail) {
			tailReturned = true
			got = got[:len(got)-1]
			tail = nil
		}
		_ = tailReturned
		if len(got) != len(want) {
			r.Violation = &core.Violation{Clause: "R.read-count", Detail: fmt.Sprintf("statement %d (%s): %d successful reads, expected %d (lines consumed so far %d of %d); outcome %s; %s", si+1, trunc(st.src, 40), len(got), len(want), nextLine, n, o.Brief(), envDesc), History: h}
			goto done
		}
		for k := range want {
			g := got[k]
			if conv == "" {
				if strings.HasSuffix(g, "\n") {
					conv = "nl"
				} else {
					conv = "bare"
				}
			}
			w := want[k]
			if conv == "nl" {
				w += "\n"
			}
			if g == w && st.keep {
				kk := g
				kept = &kk
			}
			if g != w {
				r.Violation = &core.Violation{Clause: "R.line-content", Detail: fmt.Sprintf("statement %d read %d returned %q, expected %q; %s", si+1, k+1, trunc(g, 80), trunc(w, 80), envDesc), History: h}
				goto done
			}
			totalReads++
		}
		if st.errAfter && !failed {
			if o.Kind != sess.KError || o.Err == "read error" {
				r.Violation = &core.Violation{Clause: "R.unrelated-error-expected", Detail: fmt.Sprintf("statement %d (%s) should end in its own runtime error after %d read(s), ended with %s", si+1, trunc(st.src, 40), st.reads, o.Brief()), History: h}
				goto done
			}
			r.Inc("F1.unrelated_runtime_error_between_reads", 1)
		} else if failed {
			if o.Kind != sess.KError || o.Err != "read error" {
				r.Violation = &core.Violation{Clause: "R.exhausted-read-not-an-error", Detail: fmt.Sprintf("statement %d: a read with no complete line available ended with %s", si+1, o.Brief()), History: h}
				goto done
			}
			r.Inc("F6.read_error_reported", 1)
		} else if o.Kind != sess.KValue {
			r.Violation = &core.Violation{Clause: "R.read-failed-with-input-available", Detail: fmt.Sprintf("statement %d: %s (lines consumed %d of %d); %s\n%s", si+1, o.Brief(), nextLine, n, envDesc, trunc(o.Report, 300)), History: h}
			goto done
		}
		if !o.After.AtRest(0) {
			r.Violation = &core.Violation{Clause: "R.at-rest", Detail: o.After.String(), History: h}
			goto done
		}
	}
	// 1 in 40: the same session through the built binary
	if tp.Draw(40) == 0 && errLine < 0 {
		if v := binaryReadVariant(h, stmts, content, tp.Draw(4)); v != nil {
			r.Violation = v
			goto done
		}
		r.Inc("binary.subprocess_variants", 1)
	}
done:
	if midLineCut {
		r.Inc("F6.chunk_boundary_inside_line", 1)
	}
	if multiLineChunk {
		r.Inc("F6.several_lines_in_one_chunk", 1)
	}
	r.Inc("F6.sim_read_calls", sim.Calls)
	r.Inc("F6.eof_delivered", sim.EOFs)
	r.NonTrivial = totalReads >= 2 && (midLineCut || multiLineChunk)
	r.Key = uint64(key)
	r.Interleaving = uint64(trace)
	r.TraceHash = uint64(trace)
	r.Sample = h
	return r
}

func lens(ls [][]byte) []int {
	r := make([]int, len(ls))
	for i, l := range ls {
		r[i] = len(l)
	}
	return r
}

// CalcBinary is the built cmd/calc (bin/check builds it from /repo's working tree).
var CalcBinary = func() string {
	if p := os.Getenv("SIMCALC_CALC"); p != "" {
		return p
	}
	if d := os.Getenv("SIMCALC_VERIFDIR"); d != "" {
		return d + "/.build/calc"
	}
	return "/verif/.build/calc"
}()

// binaryReadVariant runs the statements as a script through the real binary with stdin
// from a regular file and from a pre-filled pipe; both must print what the in-process
// script-flavour session prints.
//
// exitCode > 0 appends a final statement that writes a last line and ends the interpreter with
// exit(exitCode) from inside a function: everything written before must have reached stdout and
// the process must end with that status (in process, exit() would end the simulator, so this
// clause only exists against the binary).
func binaryReadVariant(h *Hist, stmts []readStmt, content []byte, exitCode int) *core.Violation {
	if _, err := os.Stat(CalcBinary); err != nil {
		return nil
	}
	if len(content) > 60000 {
		return nil // a pipe filled before the child starts must fit the pipe buffer
	}
	var script strings.Builder
	for _, d := range rdDefs {
		script.WriteString(d + "\n")
	}
	for _, st := range stmts {
		script.WriteString(st.src + "\n")
	}
	if exitCode > 0 {
		fmt.Fprintf(&script, "die = (msg, code) -> {\nwrite(msg)\nexit(code)\n}\ndie(\"last words %%d\\n\", %d)\nwrite(\"not reached\")\n", exitCode)
	}
	// in-process reference in script flavour with the whole content in one chunk
	ref := sess.New()
	sim := &sess.SimStdin{}
	sim.Feed(content)
	sess.UseStdin(sim)
	var want strings.Builder
	for _, d := range rdDefs {
		ref.Submit(d+"\n", false)
	}
	for _, st := range stmts {
		for _, o := range ref.Submit(st.src+"\n", false) {
			want.WriteString(o.Out)
			if o.Report != "" {
				want.WriteString("RUNTIME ERROR")
			}
		}
	}
	if exitCode > 0 {
		want.WriteString("last words %d\n")
	}
	dir, err := os.MkdirTemp("", "simcalc-c17-")
	if err != nil {
		return nil
	}
	defer os.RemoveAll(dir)
	sf := dir + "/s.calc"
	inf := dir + "/in.txt"
	os.WriteFile(sf, []byte(script.String()), 0o644)
	os.WriteFile(inf, content, 0o644)
	norm := func(b []byte) string { return collapseReports(string(b)) }
	run := func(kind string) (string, error) {
		var out string
		var code int
		var hung bool
		if kind == "file" {
			out, code, hung = runBinary(inf, nil, sf)
		} else {
			out, code, hung = runBinary("", content, sf)
		}
		if hung {
			return norm([]byte(out)), fmt.Errorf("did not terminate")
		}
		if code != exitCode {
			return norm([]byte(out)), fmt.Errorf("exit status %d, want %d", code, exitCode)
		}
		return norm([]byte(out)), nil
	}
	for _, kind := range []string{"file", "pipe"} {
		got, err := run(kind)
		if err != nil {
			return &core.Violation{Clause: "R.binary-exit", Detail: fmt.Sprintf("cmd/calc with stdin from %s: %v", kind, err), History: h}
		}
		if got != want.String() {
			return &core.Violation{Clause: "R.binary-" + kind + "-differs", Detail: fmt.Sprintf("cmd/calc script mode, stdin from %s: printed %q, in-process session printed %q", kind, trunc(got, 300), trunc(want.String(), 300)), History: h}
		}
	}
	return nil
}

// ---------------------------------------------------------------- mode P

func calcInt(v int64) string {
	if v < 0 {
		return fmt.Sprintf("(0 - %d)", -v)
	}
	return fmt.Sprint(v)
}

func drawValueExpr(tp *tape.Tape, d int) string {
	switch tp.Draw(9) {
	case 0:
		return calcInt(int64(tp.Draw(2000)) - 1000)
	case 1:
		return calcInt(int64(tp.Draw(1<<30)) * int64(tp.Draw(1<<30)))
	case 2:
		return fmt.Sprintf("%d.%d", tp.Draw(1000), tp.Draw(1000))
	case 3:
		return fmt.Sprintf("(%d.0 / %d.0)", 1+tp.Draw(50), 1+tp.Draw(50))
	case 4:
		return []string{"true", "false"}[tp.Draw(2)]
	case 5:
		return "\"" + []string{"", "a", "hello world", "x;y", "12", "3.5", "q{", "100%", "%d %s", "%%", "%v%"}[tp.Draw(11)] + "\""
	case 6:
		if d > 0 {
			n := tp.Draw(4)
			el := make([]string, n)
			for i := range el {
				el[i] = drawValueExpr(tp, d-1)
			}
			return "[" + strings.Join(el, ", ") + "]"
		}
		return "[]"
	case 7:
		return fmt.Sprintf("(%d.5 * 1000000000000000000000.0)", tp.Draw(9))
	default:
		return "(x) -> x"
	}
}

func (C17) pure(tp *tape.Tape) core.Result {
	var r core.Result
	repl := !tp.Bool()
	h := &Hist{Flavour: flavour(repl), Notes: "mode P: built-in contracts against the reference model"}
	key := core.NewHash().Str("P").Str(h.Flavour)
	trace := core.NewHash()
	s := sess.New()
	sim := &sess.SimStdin{}
	sess.UseStdin(sim)
	in := newModel()
	nst := 2 + tp.Draw(8)
	step := func(src string) (sess.Outcome, MOut, bool) {
		h.add(src)
		key = key.Str(shapeOf(src))
		outs := s.Submit(src+"\n", repl)
		mouts, ok := modelSubmit(in, src+"\n")
		r.Statements++
		o := outs[len(outs)-1]
		r.Instructions += o.Steps
		trace = trace.Str(o.Kind).Str(o.Val).Str(o.Out).Str(o.Err)
		if o.Kind == sess.KPanic {
			r.Violation = panicViolation("P.panic", o, h)
			return o, MOut{}, true
		}
		if !ok || len(mouts) != len(outs) {
			r.Discard = "generated text did not parse: " + trunc(src, 50)
			return o, MOut{}, true
		}
		m := mouts[len(mouts)-1]
		if m.Kind == sess.KBudget || o.Kind == sess.KBudget {
			r.Discard = "budget"
			return o, m, true
		}
		if !agrees(o, m, repl) {
			r.Violation = &core.Violation{Clause: "P.model-differs", Detail: fmt.Sprintf("%s: real %s | model %s", trunc(src, 80), o.Brief(), m.Brief()), History: h}
			return o, m, true
		}
		return o, m, false
	}
	for i := 0; i < nst; i++ {
		var src string
		switch tp.Draw(14) {
		case 10: // a program is free to rebind a built-in's name; the other built-ins must not care
			src = []string{
				"fromto = (a, b) -> while a <= b {\nyield a\na = a + 1\n}",
				"fromto = (a, b) -> yield 77",
				"elems = (a) -> yield 55",
				"indices = (a) -> {\nyield 0 - 1\n}",
				"i = 40", "a = [9, 9, 9, 9, 9, 9, 9]", "b = 2", "e = 3"}[tp.Draw(8)]
			r.Inc("P.builtin_name_rebound_by_program", 1)
		case 0: // toa renders exactly what write prints
			v := drawValueExpr(tp, 2)
			o1, _, stop := step("write(" + v + ")")
			if stop {
				goto done
			}
			o2, _, stop := step("write(toa(" + v + "))")
			if stop {
				goto done
			}
			if o1.Out != o2.Out {
				r.Violation = &core.Violation{Clause: "P.toa-vs-write", Detail: fmt.Sprintf("write(%s) printed %q, write(toa(%s)) printed %q", v, o1.Out, v, o2.Out), History: h}
				goto done
			}
			r.Inc("P.toa_vs_write", 1)
			continue
		case 1: // aton(toa(n)) == n, routed through the environment
			v := []string{calcInt(int64(tp.Draw(1<<31)) - (1 << 30)), calcInt(int64(tp.Draw(1<<31)) * int64(tp.Draw(1<<31))),
				fmt.Sprintf("%d.%d", tp.Draw(100000), tp.Draw(1000)), fmt.Sprintf("(%d.0 / %d.0)", 1+tp.Draw(99), 1+tp.Draw(99)),
				fmt.Sprintf("(%d.25 * 100000000000000000000000.0)", tp.Draw(9))}[tp.Draw(5)]
			if _, _, stop := step("gv = " + v); stop {
				goto done
			}
			o, _, stop := step("write(toa(gv))")
			if stop {
				goto done
			}
			sim.Feed([]byte(o.Out + "\n"))
			in.Stdin = append(in.Stdin, []byte(o.Out+"\n")...)
			// whether read() keeps the line break is not documented: strip it only if it is there
			if _, _, stop := step("chomp = (s) -> {\nn = #s\nif n == 0 {\nreturn s\n}\nk = n - 1\nc = s[k]\nif c == \"\\n\" {\ns[0:k]\n} else {\ns\n}\n}"); stop {
				goto done
			}
			if _, _, stop := step("gs = chomp(read())"); stop {
				goto done
			}
			o3, _, stop := step("write(aton(gs) == gv)")
			if stop {
				goto done
			}
			if o3.Out != "true" {
				r.Violation = &core.Violation{Clause: "P.aton-toa-roundtrip", Detail: fmt.Sprintf("aton(toa(%s)) == %s printed %q (text was %q)", v, v, o3.Out, o.Out), History: h}
				goto done
			}
			r.Inc("P.aton_toa_roundtrip_via_stdin", 1)
			continue
		case 2:
			src = fmt.Sprintf("for i <- fromto(%s, %s) {\nwrite(toa(i) + \",\")\n}", calcInt(int64(tp.Draw(16))-5), calcInt(int64(tp.Draw(16))-5))
			if tp.Draw(3) == 0 { // fractional and float bounds: a, a+1, ... while below b
				fb := []string{"0", "2.5", "(0 - 2.5)", "0.5", "3.0", "3", "(0 - 0.5)", "1.0", "2.999"}
				src = fmt.Sprintf("for i <- fromto(%s, %s) {\nwrite(toa(i) + \",\")\n}", fb[tp.Draw(len(fb))], fb[tp.Draw(len(fb))])
			}
			r.Inc("P.fromto", 1)
		case 3:
			src = "for e <- elems(" + []string{"[]", "[1, 2, 3]", "\"\"", "\"abc\"", "[[1], \"x\", true]", "[1.5]"}[tp.Draw(6)] + ") {\nwrite(toa(e) + \",\")\n}"
			r.Inc("P.elems", 1)
		case 4:
			src = "for e <- indices(" + []string{"[]", "[1, 2, 3]", "\"\"", "\"abcde\"", "[[], []]"}[tp.Draw(5)] + ") {\nwrite(toa(e) + \",\")\n}"
			r.Inc("P.indices", 1)
		case 5: // wrong argument counts
			src = []string{"toa()", "toa(1, 2)", "write()", "write(1, 2)", "aton()", "aton(\"1\", 2)", "fromto(1)", "fromto(1, 2, 3)", "elems()", "elems([1], [2])", "indices()", "read(1)"}[tp.Draw(12)]
			r.Inc("P.wrong_arg_count", 1)
		case 6: // wrong argument types
			src = []string{"aton(5)", "aton(true)", "aton([1])", "for e <- elems(5) {\nwrite(e)\n}", "for e <- indices(true) {\nwrite(e)\n}",
				"for e <- fromto(\"a\", 3) {\nwrite(e)\n}", "for e <- fromto(1, \"b\") {\nwrite(e)\n}", "aton(\"zz\")", "aton(\"\")", "aton(\"1 \")", "for e <- elems(nosuch) {\nwrite(e)\n}"}[tp.Draw(11)]
			r.Inc("P.wrong_arg_type", 1)
		case 7:
			src = "aton(\"" + []string{"0", "007", "-12", "+5", "1e3", "0x10", "1_000", ".5", "5.", "inf", "nan", "9223372036854775807", "9223372036854775808", "-9223372036854775808",
				"-", "+", ".", " ", "/", "a", "7", "e", "1e", "-.", "--1", " 1", "1e+06", "1E3", "0.0001e-2", "１"}[tp.Draw(30)] + "\")"
			r.Inc("P.aton_forms", 1)
		case 8: // fromto/elems outside a for loop just run
			src = []string{"fromto(0, 3)", "elems([1, 2])", "indices(\"ab\")", "fromto(3, 0)"}[tp.Draw(4)]
			r.Inc("P.generator_called_outside_for", 1)
		case 12: // strings with multi-byte characters: as many elements and indices as # says, whatever an element looks like
			str := []string{"é", "ab日本語", "£1", "x→y←z", "ß", "añb"}[tp.Draw(6)]
			src = fmt.Sprintf("{\nsx = \"%s\"\nne = 0\nfor e <- elems(sx) {\nne = ne + 1\n}\nli = 0 - 1\nni = 0\nfor i <- indices(sx) {\nli = i\nni = ni + 1\n}\nwrite([ne == #sx, ni == #sx, li == #sx - 1])\n}", str)
			r.Inc("P.elems_indices_multibyte", 1)
		case 9: // a rendering that is kept while other values are rendered and written, then looked at again
			if _, _, stop := step("gk = toa(" + drawValueExpr(tp, 2) + ")"); stop {
				goto done
			}
			if _, _, stop := step("write(toa(" + drawValueExpr(tp, 2) + "))"); stop {
				goto done
			}
			src = "write(gk + \"|\" + toa(#gk))"
			r.Inc("P.toa_result_kept", 1)
		case 13: // several renderings within one statement, of values that compare equal yet print differently (and the reverse)
			pool := []string{"0.0", "((0 - 1) * 0.0)", "0", "(0 - 0.0)", "1", "1.0", "(0.0 * (0 - 3))", "[0.0]", "[((0 - 1) * 0.0)]", "\"0\"", "true", "(2.0 / 2)", "[0]"}
			n := 2 + tp.Draw(4)
			el := make([]string, n)
			for i := range el {
				el[i] = "toa(" + pool[tp.Draw(len(pool))] + ")"
			}
			src = "write([" + strings.Join(el, ", ") + "])"
			r.Inc("P.toa_several_in_one_statement", 1)
		default:
			src = "toa(" + drawValueExpr(tp, 2) + ")"
			r.Inc("P.toa", 1)
		}
		if _, _, stop := step(src); stop {
			goto done
		}
	}
done:
	r.NonTrivial = r.Statements >= 3
	r.Key = uint64(key)
	r.Interleaving = 0
	r.TraceHash = uint64(trace)
	r.Sample = h
	return r
}

// RunScript: steps run in script flavour with Stdin delivered whole (simulated reader and
// os.Stdin file); the concatenated write() output must equal Want[0].
func (C17) RunScript(raw json.RawMessage) core.Result {
	var r core.Result
	sc, h, err := parseScript(raw)
	if err != nil || len(sc.Want) != 1 {
		r.Discard = "bad script"
		return r
	}
	s := sess.New()
	sim := &sess.SimStdin{}
	sim.Feed([]byte(sc.Stdin))
	sess.UseStdin(sim)
	restore := sess.UseRealStdinFile([]byte(sc.Stdin))
	defer restore()
	got := ""
	for _, src := range sc.Steps {
		for _, o := range s.Submit(src+"\n", sc.Flavour == "repl") {
			if o.Kind == sess.KPanic {
				r.Violation = panicViolation("panic", o, h)
				return r
			}
			got += o.Out
			if o.Kind == sess.KError {
				got += "<" + o.Err + ">"
			}
		}
	}
	if got != sc.Want[0] {
		r.Violation = &core.Violation{Clause: "R.line-content", Detail: fmt.Sprintf("printed %q, want %q", got, sc.Want[0]), History: h}
	}
	return r
}

// collapseReports keeps write() output and replaces every runtime error report (which quotes
// instruction indices and addresses) by the marker RUNTIME ERROR.
func collapseReports(s string) string {
	const ruler = "=====================================================\n"
	var out strings.Builder
	for {
		i := strings.Index(s, "RUNTIME ERROR : ")
		if i < 0 {
			out.WriteString(s)
			break
		}
		out.WriteString(s[:i])
		out.WriteString("RUNTIME ERROR")
		if j := strings.LastIndex(s, ruler); j < i {
			break
		}
		// a report is contiguous: it ends at the first ruler line that is not followed by another memory context
		rest := s[i:]
		end := 0
		for {
			k := strings.Index(rest[end:], ruler)
			if k < 0 {
				break
			}
			end += k + len(ruler)
			if !strings.HasPrefix(rest[end:], "memory context ") {
				break
			}
		}
		s = rest[end:]
	}
	return out.String()
}
