package props

import (
	"bytes"
	"context"
	"os"
	"os/exec"
	"time"
	"verif/core"
)

// runBinary runs the built cmd/calc with a generous wall-clock watchdog. A child that is
// still running after the first limit is re-run once alone with a much longer limit; only
// if that also expires is it reported as hung (work of milliseconds that does not finish in
// a minute is real code spinning, not scheduling noise).
func runBinary(stdinPath string, stdin []byte, args ...string) (out string, code int, hung bool) {
	limits := []time.Duration{15 * time.Second, 90 * time.Second}
	if core.Shrinking {
		limits = []time.Duration{5 * time.Second}
	}
	for attempt, limit := range limits {
		core.Beat()
		ctx, cancel := context.WithTimeout(context.Background(), limit)
		cmd := exec.CommandContext(ctx, CalcBinary, args...)
		var ob bytes.Buffer
		lw := &cappedWriter{b: &ob, cancel: cancel}
		cmd.Stdout = lw
		cmd.Stderr = lw
		var f *os.File
		switch {
		case stdinPath != "":
			f, _ = os.Open(stdinPath)
			cmd.Stdin = f
		case stdin != nil:
			pr, pw, _ := os.Pipe()
			pw.Write(stdin)
			pw.Close()
			f = pr
			cmd.Stdin = pr
		}
		err := cmd.Run()
		if f != nil {
			f.Close()
		}
		expired := ctx.Err() == context.DeadlineExceeded
		cancel()
		if lw.over {
			return ob.String()[:4096], -1, true // printing without end is not terminating
		}
		if expired {
			if attempt < len(limits)-1 {
				continue
			}
			return ob.String(), -1, true
		}
		code = 0
		if err != nil {
			code = 1
			if ee, ok := err.(*exec.ExitError); ok {
				code = ee.ExitCode()
			}
		}
		return ob.String(), code, false
	}
	return "", -1, true
}

// cappedWriter keeps at most 64 MiB of a child's output and stops the child beyond that.
type cappedWriter struct {
	b      *bytes.Buffer
	cancel func()
	over   bool
}

func (c *cappedWriter) Write(p []byte) (int, error) {
	if c.b.Len()+len(p) > 64<<20 {
		c.over = true
		c.cancel()
		return len(p), nil
	}
	return c.b.Write(p)
}
