package props

import (
	"fmt"
	"sort"
	"strings"

	"verif/core"
	"verif/sess"
	"verif/tape"
)

// C10: values are immutable (aliasing through slice capacity over operation histories).
type C10 struct{}

func init() { core.Register(C10{}) }

func (C10) ID() string    { return "C10" }
func (C10) Level() string { return "exploration" }
func (C10) Runs(t core.Tier) int {
	if t == core.Thorough {
		return 3_000_000
	}
	return 60_000
}
func (C10) Rule() string {
	return "One run = a session history of 5..40 array/string operations over global values that share structure: literals (flat, nested, with computed elements), slices of slices, concatenation onto slices with spare capacity, functions whose body is a literal or builds arrays in loops and recursion, values passed down and returned up, arrays captured by closures and consumed by generators while the body concatenates, with index errors injected in between. The driver is adaptive: it reads current lengths from the real globals to draw valid bounds. Invariant after every statement (real vs recorded): every global not assigned by that statement renders exactly as when it was last assigned; every data-segment entry renders as when it was created; a function whose body is a literal returns the same rendering on every call. Non-trivial = the history contains an append-like operation on a value whose backing array is shared with a live value (slice of a live array, or an array literal with a constant prefix evaluated more than once). Distinct = hash of the operation list."
}
func (C10) Assumptions() []string {
	return []string{
		"weakest fit of the claimed set: the hazard is aliasing through Go slice capacity, i.e. allocator state built up by the preceding history",
		"mutation visible only through a value nobody can name any more is out of reach",
		"globals are read through memory.LookUpGlobal (exported) and rendered with value.String, the same rendering toa() uses",
	}
}
func (C10) RealComponents() []string { return C09{}.RealComponents() }
func (C10) StubComponents() []string { return C09{}.StubComponents() }

var c10Defs = []string{
	"ident = (a) -> a",
	"app = (a, v) -> a + [v]",
	"slc = (a, i, j) -> a[i:j]",
	"lita = () -> [1, 2, 3]",
	"litn = () -> [[1, 2], [3], []]",
	"lits = () -> \"hello\"",
	"mkl = (x) -> [1, 2, x]",
	"mkn = (x) -> [[x], [x, x]]",
	"build = (n) -> {\nr = []\nfor i <- fromto(0, n) {\nr = r + [i]\n}\nr\n}",
	"rbuild = (n) -> if n <= 0 {\n[0]\n} else {\nrbuild(n - 1) + [n]\n}",
	"lastfirst = (a) -> {\nt = a[0:1]\nu = t + [99]\na\n}",
	"capt = (a) -> () -> a + [7]",
	"walk = (a) -> {\nr = []\nfor e <- elems(a) {\nr = r + [e]\nq = a[0:1] + [e]\n}\nr\n}",
	"pairs = (a) -> {\nr = []\nfor i, e <- indices(a), elems(a) {\nr = r + [[i, e]]\n}\nr\n}",
	"grow = (a, n) -> {\ni = 0\nwhile i < n {\na = a + [i]\ni = i + 1\n}\na\n}",
	"twice = (a) -> [a + [1], a + [2], a]",
	"window = (a, i, n) -> a[i:#a][0:n]",
	"keepnums = (n) -> {\na = toa(n)\nb = toa(n + 1)\nc = toa(n * 100)\nd = toa(0 - n)\n[a, b, c, d, a + b]\n}",
	"fork = (a, d) -> if d <= 0 {\n[a]\n} else {\nfork(a + [0], d - 1) + fork(a + [1], d - 1)\n}",
	"joinall = (a) -> {\nr = \"\"\nfor e <- elems(a) {\nr = r + toa(e) + \";\"\n}\nr\n}",
}

func (C10) Run(tp *tape.Tape) core.Result {
	var r core.Result
	h := &Hist{Flavour: "repl"}
	s := sess.New()
	key := core.NewHash()
	trace := core.NewHash()
	snap := map[string]string{} // global -> rendering when last assigned
	kind := map[string]byte{}   // 'a' array, 's' string
	var names []string
	dsSnap := []string{}
	shared := false
	litStr := tp.Bool()

	// renderings are cloned: a snapshot must never alias storage the interpreter could reuse
	render := func(name string) string { return strings.Clone(s.Mem.LookUpGlobal(name).String()) }
	length := func(name string) int {
		v := s.Mem.LookUpGlobal(name)
		if a, ok := v.ToArray(); ok {
			return len(a)
		}
		if st, ok := v.ToString(); ok {
			return len(st)
		}
		return 0
	}
	check := func(assigned string, src string) bool {
		for _, n := range names {
			if n == assigned {
				continue
			}
			if got := render(n); got != snap[n] {
				r.Violation = &core.Violation{Clause: "global-changed", Detail: fmt.Sprintf("after %q the untouched global %s renders %s, it was %s", trunc(src, 80), n, trunc(got, 120), trunc(snap[n], 120)), History: h}
				return true
			}
		}
		for i, want := range dsSnap {
			if got := strings.Clone(s.DS[i].String()); got != want {
				r.Violation = &core.Violation{Clause: "constant-changed", Detail: fmt.Sprintf("after %q data segment entry %d (a program constant) renders %s, it was %s", trunc(src, 80), i, trunc(got, 120), trunc(want, 120)), History: h}
				return true
			}
		}
		for i := len(dsSnap); i < len(s.DS); i++ {
			dsSnap = append(dsSnap, strings.Clone(s.DS[i].String()))
		}
		return false
	}
	submit := func(src, assigned string, k byte, expectErr bool) bool {
		h.add(src)
		key = key.Str(shapeOf(src))
		outs := s.Submit(src+"\n", true)
		r.Statements++
		o := outs[len(outs)-1]
		r.Instructions += o.Steps
		trace = trace.Str(o.Kind).Str(o.Val).Str(o.Err)
		switch {
		case o.Kind == sess.KPanic:
			r.Violation = panicViolation("panic", o, h)
			return true
		case o.Kind == sess.KParse:
			r.Discard = "generator produced unparsable text: " + trunc(src, 60)
			return true
		case o.Kind == sess.KError && !expectErr:
			r.Violation = &core.Violation{Clause: "unexpected-error", Detail: fmt.Sprintf("%q failed with %s\n%s", trunc(src, 80), o.Err, trunc(o.Report, 300)), History: h}
			return true
		case o.Kind == sess.KError:
			r.Inc("F1.index_error_between_operations", 1)
			assigned = ""
		}
		if check(assigned, src) {
			return true
		}
		if assigned != "" {
			if _, ok := snap[assigned]; !ok {
				names = append(names, assigned)
				sort.Strings(names)
			}
			snap[assigned] = render(assigned)
			kind[assigned] = k
		}
		return false
	}
	pick := func(k byte) string {
		var c []string
		for _, n := range names {
			if kind[n] == k {
				c = append(c, n)
			}
		}
		if len(c) == 0 {
			return ""
		}
		return c[tp.Draw(len(c))]
	}
	nn := 0
	fresh := func() string {
		nn++
		return "z" + string(rune('a'+(nn-1)%26)) + string(rune('a'+((nn-1)/26)%26))
	}

	for _, d := range c10Defs {
		if submit(d, "", 0, false) {
			goto done
		}
	}
	// literal-with-computed-elements functions: constant prefix of drawn length (0..9), 1..3 computed elements, optional constant tail
	for i := 0; i < 3; i++ {
		np, nc, nt := tp.Draw(10), 1+tp.Draw(3), tp.Draw(3)
		var el []string
		for j := 0; j < np; j++ {
			if litStr {
				el = append(el, fmt.Sprintf("\"p%d\"", j))
			} else {
				el = append(el, fmt.Sprint(j+1))
			}
		}
		for j := 0; j < nc; j++ {
			el = append(el, []string{"x", "y", "x"}[j])
		}
		for j := 0; j < nt; j++ {
			el = append(el, fmt.Sprint(90+j))
		}
		litStr = !litStr
		if submit(fmt.Sprintf("lc%c = (x, y) -> [%s]", 'a'+i, strings.Join(el, ", ")), "", 0, false) {
			goto done
		}
	}
	// seed values
	if submit(fresh()+" = [10, 20, 30, 40]", "zaa", 'a', false) || submit(fresh()+" = \"abcdef\"", "zba", 's', false) {
		goto done
	}
	{
		nops := 5 + tp.Draw(36)
		litSnap := map[string]string{}
		for i := 0; i < nops; i++ {
			a := pick('a')
			st := pick('s')
			v := fresh()
			switch tp.Draw(32) {
			case 31: // renderings of several numbers made and kept within one statement
				n := 10 + tp.Draw(5000)
				if submit(fmt.Sprintf("%s = keepnums(%d)", v, n), v, 'a', false) {
					goto done
				}
				if want := fmt.Sprintf("[%d, %d, %d, %d, %d%d]", n, n+1, n*100, -n, n, n+1); snap[v] != want {
					r.Violation = &core.Violation{Clause: "rendering-changed", Detail: fmt.Sprintf("keepnums(%d) gave %s, want %s", n, snap[v], want), History: h}
					goto done
				}
				r.Inc("number_renderings_kept_within_one_statement", 1)
			case 29, 30: // take a prefix of a whole-range slice (the drop-then-take idiom with nothing dropped), directly and through a function
				l := length(a)
				k := tp.Draw(l + 1)
				form := fmt.Sprintf("%s = %s[0:#%s][0:%d]", v, a, a, k)
				if tp.Bool() {
					form = fmt.Sprintf("%s = window(%s, 0, %d)", v, a, k)
				}
				if submit(form, v, 'a', false) {
					goto done
				}
				if st != "" {
					w := fresh()
					ls := length(st)
					if submit(fmt.Sprintf("%s = %s[0:#%s][0:%d]", w, st, st, tp.Draw(ls+1)), w, 's', false) {
						goto done
					}
				}
				shared = true
				r.Inc("prefix_of_whole_range_slice", 1)
			case 27, 28: // an argument that is itself a concatenation, extended twice by the callee: both results and the argument keep their own elements
				inner := strings.TrimSuffix(strings.TrimPrefix(render(a), "["), "]")
				sep := ", "
				if inner == "" {
					sep = ""
				}
				if tp.Bool() {
					if submit(fmt.Sprintf("%s = twice(%s + [9])", v, a), v, 'a', false) {
						goto done
					}
					if want := "[[" + inner + sep + "9, 1], [" + inner + sep + "9, 2], [" + inner + sep + "9]]"; snap[v] != want {
						r.Violation = &core.Violation{Clause: "argument-extended-in-place", Detail: fmt.Sprintf("twice(%s + [9]) with %s = %s gave %s, want %s", a, a, render(a), snap[v], want), History: h}
						goto done
					}
				} else {
					if submit(fmt.Sprintf("%s = fork(%s + [7], 2)", v, a), v, 'a', false) {
						goto done
					}
					p := "[" + inner + sep + "7, "
					if want := "[" + p + "0, 0], " + p + "0, 1], " + p + "1, 0], " + p + "1, 1]]"; snap[v] != want {
						r.Violation = &core.Violation{Clause: "argument-extended-in-place", Detail: fmt.Sprintf("fork(%s + [7], 2) gave %s, want %s", a, snap[v], want), History: h}
						goto done
					}
				}
				shared = true
				r.Inc("concatenation_passed_as_argument_and_extended_twice", 1)
			case 22, 23: // the text of a live array kept as a string (toa builds it; later renderings must not touch it)
				if submit(fmt.Sprintf("%s = toa(%s)", v, a), v, 's', false) {
					goto done
				}
				r.Inc("rendering_kept_as_string", 1)
			case 24: // slice of a kept rendering, and a rendering of a rendering
				l := length(st)
				lo := tp.Draw(l + 1)
				hi := lo + tp.Draw(l-lo+1)
				if submit(fmt.Sprintf("%s = %s[%d:%d]", v, st, lo, hi), v, 's', false) {
					goto done
				}
			case 25: // strings built by concatenation in a loop, from renderings
				if submit(fmt.Sprintf("%s = joinall(%s)", v, a), v, 's', false) {
					goto done
				}
			case 26: // written output must not disturb kept values either
				if submit(fmt.Sprintf("write(%s)", a), "", 0, false) || submit(fmt.Sprintf("%s = toa([%s, \"%s\"])", v, a, "q"), v, 's', false) {
					goto done
				}
			case 0:
				n := tp.Draw(5)
				el := make([]string, n)
				for j := range el {
					el[j] = fmt.Sprint(tp.Draw(100))
				}
				if submit(v+" = ["+strings.Join(el, ", ")+"]", v, 'a', false) {
					goto done
				}
			case 1: // slice of a live array
				l := length(a)
				lo := tp.Draw(l + 1)
				hi := lo + tp.Draw(l-lo+1)
				if submit(fmt.Sprintf("%s = %s[%d:%d]", v, a, lo, hi), v, 'a', false) {
					goto done
				}
			case 2, 3: // concatenation onto a slice with spare capacity
				l := length(a)
				if l == 0 {
					continue
				}
				hi := tp.Draw(l)
				if submit(fmt.Sprintf("%s = %s[0:%d] + [%d]", v, a, hi, 1000+i), v, 'a', false) {
					goto done
				}
				shared = true
				r.Inc("append_onto_slice_of_live_array", 1)
			case 4: // concat of two live arrays
				b := pick('a')
				if submit(fmt.Sprintf("%s = %s + %s", v, a, b), v, 'a', false) {
					goto done
				}
			case 5: // through functions
				l := length(a)
				lo := tp.Draw(l + 1)
				hi := lo + tp.Draw(l-lo+1)
				if submit(fmt.Sprintf("%s = app(slc(%s, %d, %d), %d)", v, a, lo, hi, 2000+i), v, 'a', false) {
					goto done
				}
				shared = true
				r.Inc("append_onto_slice_through_calls", 1)
			case 6: // literal-bodied function: same value every time, and appending to its result
				fn := []string{"lita", "litn", "lits"}[tp.Draw(3)]
				k := byte('a')
				if fn == "lits" {
					k = 's'
				}
				if submit(v+" = "+fn+"()", v, k, false) {
					goto done
				}
				if prev, ok := litSnap[fn]; ok && prev != snap[v] {
					r.Violation = &core.Violation{Clause: "literal-changed", Detail: fmt.Sprintf("%s() returned %s, earlier it returned %s", fn, snap[v], prev), History: h}
					goto done
				}
				litSnap[fn] = snap[v]
				w := fresh()
				if k == 'a' {
					if submit(w+" = "+v+" + [5]", w, 'a', false) {
						goto done
					}
				} else if submit(w+" = "+v+" + \"!\"", w, 's', false) {
					goto done
				}
				r.Inc("literal_function_called", 1)
			case 7, 8: // array literal with constant prefix and computed tail, evaluated repeatedly
				fn := []string{"mkl", "mkn", "lc", "lc", "lc"}[tp.Draw(5)]
				call := fmt.Sprintf("%s(%d)", fn, 3000+i)
				if fn == "lc" {
					fn = "lc" + string(rune('a'+tp.Draw(3)))
					call = fmt.Sprintf("%s(%d, %d)", fn, 3000+i, 5000+i)
				}
				if submit(fmt.Sprintf("%s = %s", v, call), v, 'a', false) {
					goto done
				}
				shared = true
				r.Inc("array_literal_with_computed_elements", 1)
			case 9:
				if submit(fmt.Sprintf("%s = build(%d)", v, tp.Draw(8)), v, 'a', false) {
					goto done
				}
			case 10:
				if submit(fmt.Sprintf("%s = rbuild(%d)", v, tp.Draw(8)), v, 'a', false) {
					goto done
				}
			case 11:
				if length(a) == 0 {
					continue
				}
				if submit(fmt.Sprintf("%s = lastfirst(%s)", v, a), v, 'a', false) {
					goto done
				}
				shared = true
			case 12: // closure capturing an array
				if submit(fmt.Sprintf("%s = capt(%s)", v+"f", a), "", 0, false) {
					goto done
				}
				if submit(fmt.Sprintf("%s = %sf()", v, v), v, 'a', false) {
					goto done
				}
				r.Inc("array_captured_by_closure", 1)
			case 13: // generator over an array while the body concatenates
				if submit(fmt.Sprintf("%s = walk(%s)", v, a), v, 'a', false) {
					goto done
				}
				r.Inc("array_iterated_while_concatenating", 1)
			case 14:
				if submit(fmt.Sprintf("%s = pairs(%s)", v, a), v, 'a', false) {
					goto done
				}
			case 15:
				if submit(fmt.Sprintf("%s = grow(%s, %d)", v, a, tp.Draw(5)), v, 'a', false) {
					goto done
				}
			case 16: // strings: slice and concat
				l := length(st)
				lo := tp.Draw(l + 1)
				hi := lo + tp.Draw(l-lo+1)
				if submit(fmt.Sprintf("%s = %s[%d:%d] + \"%c\"", v, st, lo, hi, 'A'+rune(tp.Draw(26))), v, 's', false) {
					goto done
				}
			case 17: // index error in between
				if submit(fmt.Sprintf("%s[%d]", a, length(a)+tp.Draw(3)), "", 0, true) {
					goto done
				}
			case 18: // nested: array holding live arrays
				b := pick('a')
				if submit(fmt.Sprintf("%s = [%s, %s]", v, a, b), v, 'a', false) {
					goto done
				}
			case 19: // slice of slice of slice
				l := length(a)
				if l < 2 {
					continue
				}
				if submit(fmt.Sprintf("%s = %s[1:%d][0:%d] + [%d]", v, a, l, tp.Draw(l-1), 4000+i), v, 'a', false) {
					goto done
				}
				shared = true
			case 20: // top-level loop appending
				if submit(fmt.Sprintf("%s = %s[0:%d]", v, a, tp.Draw(length(a)+1)), v, 'a', false) {
					goto done
				}
				if submit(fmt.Sprintf("for zi <- fromto(0, %d) {\n%s = %s + [zi]\n}", 1+tp.Draw(4), v, v), v, 'a', false) {
					goto done
				}
				shared = true
			default:
				if submit(fmt.Sprintf("%s = ident(%s)", v, a), v, 'a', false) {
					goto done
				}
			}
		}
	}
done:
	r.NonTrivial = shared
	r.Key = uint64(key)
	r.TraceHash = uint64(trace)
	r.Sample = h
	return r
}
