package props

import (
	"encoding/json"
	"fmt"
	"strings"

	"verif/core"
	"verif/gen"
	"verif/sess"
	"verif/tape"
)

// C09: evaluation leaves the machine clean.
type C09 struct{}

func init() { core.Register(C09{}) }

func (C09) ID() string    { return "C09" }
func (C09) Level() string { return "exploration" }
func (C09) Runs(t core.Tier) int {
	if t == core.Thorough {
		return 2_500_000
	}
	return 80_000
}
func (C09) Rule() string {
	return "One run = one generated session (prelude + generated pure/proc/generator definitions + 1..8 top-level statements of every statement form, REPL or script flavour, optional injected aborts and data-driven errors) with the conservation invariant (sp back to its value before the statement, frame depth = closure depth = live contexts = 0, main ip = len(CS)) checked after every statement; 1 run in 4 instead runs the growth clause: the same inline loop body under n and 2n iterations in twin sessions must reach the same maximum sp in every context and the same stack length, and re-submitting a statement must not grow the stack. Non-trivial = some statement executed a loop with >= 3 context switches or iterations, or a cancellation/abort fired. Distinct = distinct hash of (statement shapes with numerals collapsed, fault plan, context-switch trace)."
}
func (C09) Assumptions() []string {
	return []string{
		"accessors SP/FrameDepth/ClosureDepth/StackLen/MainIP/LiveContexts (verif build tag) report the real fields",
		"generated programs stay in the fragment of DESIGN.md 5.3; programs that exceed the instruction budget are discarded and counted",
		"a leak smaller than one slot per 2n iterations cannot exist (slots are integral)",
	}
}
func (C09) RealComponents() []string {
	return []string{"lexer", "TLexer", "combinator", "parser", "STRewrite", "bytecoder", "vm", "memory", "value", "builtin"}
}
func (C09) StubComponents() []string {
	return []string{"processInput is re-enacted by the driver (parse, STRewrite, ByteCode/ByteCodeNoStck, Run); C16 checks it against node.Loop"}
}

func (p C09) Run(tp *tape.Tape) core.Result {
	if tp.Draw(4) == 3 {
		return p.growth(tp)
	}
	return p.invariant(tp)
}

func (C09) invariant(tp *tape.Tape) core.Result {
	var r core.Result
	sw := drawSwarm(tp)
	g := newGen(tp, sw)
	h := &Hist{Flavour: flavour(sw.Repl)}
	s := sess.New()
	s.TrackSP = true
	key := core.NewHash().Str(h.Flavour)
	trace := core.NewHash()
	abortChance := tp.Draw(4) // 0: none; else 1 in (6-abortChance) statements
	loops := false
	cancelled := false

	submit := func(src string, abortAt int) (stop bool) {
		st := Step{Src: src}
		if abortAt > 0 {
			st.Fault = fmt.Sprintf("F3:%d", abortAt)
			st.Abort = abortAt
		}
		h.Steps = append(h.Steps, st)
		s.AbortAt = abortAt
		outs := s.Submit(src+"\n", sw.Repl)
		s.AbortAt = 0
		r.Statements++
		key = key.Str(shapeOf(src)).Int(abortAt)
		for _, o := range outs {
			r.Instructions += o.Steps
			trace = trace.Str(o.Kind).Str(o.Val).Str(o.Out).Str(o.Err).Int(int(o.Steps)).Int(int(o.Trace))
			key = key.Int(int(o.Trace))
			if o.Switches >= 3 {
				loops = true
			}
			switch o.Kind {
			case sess.KPanic:
				r.Violation = panicViolation("panic", o, h)
				return true
			case sess.KParse:
				r.Discard = "generator produced unparsable text: " + trunc(o.Err, 60)
				r.Sample = h
				return true
			case sess.KBudget:
				r.Inc("discard.budget", 1)
			case sess.KAbort:
				r.Inc("F3.abort_fired", 1)
				cancelled = true
			case sess.KError:
				r.Inc("F1.runtime_error."+o.Err, 1)
				cancelled = true
			}
			if !o.After.AtRest(0) {
				r.Violation = &core.Violation{Clause: "at-rest-after-" + o.Kind,
					Detail:  fmt.Sprintf("after statement %d (%s): %s; expected sp=0 frames=0 closures=0 contexts=0 mainip=len(CS). before: %s", len(h.Steps), o.Brief(), o.After, o.Before),
					History: h}
				return true
			}
		}
		return false
	}

	for _, d := range buildDefs(g, sw) {
		if submit(d, 0) {
			goto done
		}
	}
	{
		top := g.TopScope(sw.TopRet)
		for i := 0; i < sw.NStmts; i++ {
			lines := g.TopStmt(top)
			for _, l := range lines {
				ab := 0
				if abortChance > 0 && tp.Draw(7-abortChance) == 0 {
					ab = 1 + tp.Draw(40)
				}
				if submit(l, ab) {
					goto done
				}
			}
		}
	}
done:
	mergeFeat(&r, g)
	mergeProbes(&r, s)
	r.NonTrivial = loops || cancelled
	r.Key = uint64(key)
	r.Interleaving = uint64(trace)
	r.TraceHash = uint64(trace)
	r.Sample = h
	return r
}

// growth: same inline body under n and 2n iterations; max sp and stack length must not depend on n.
func (C09) growth(tp *tape.Tape) core.Result {
	var r core.Result
	sw := drawSwarm(tp)
	g := newGen(tp, sw)
	defs := buildDefs(g, sw)
	kind := tp.Draw(11)
	n := 3 + tp.Draw(6)
	body := g.BodyStmts(g.EmptyFuncScope("i", "n", "e", "s", "r"), 1+tp.Draw(3))
	// what the loop body ends in: the statement form whose value (or absence of one) the loop
	// has to pop, keep or hand on, per iteration
	tails := []string{"", "i * 2 + 1", "toa(i)", "deep(1)", "[i, i + 1]", "if i % 2 == 0 {\ni\n} else {\ni + 1\n}", "if i % 2 == 0 {\ni * 3\n}",
		"if true {\nq = i\nq + 1\n}", "\"s\" + toa(i)", "\"abcd\"[i % 3]", "if i > 1000 {\nreturn 5\n} else {\ni\n}", "if i < 1000 {\ni * 2\n} else {\nreturn 6\n}", "(x) -> x + i", "[1, 2, 3][i % 3:3]", "-i", "i < 3", "#toa(i)", "deep(i % 3) + deep(1)"}
	tail := tails[tp.Draw(len(tails))]
	withTail := func(b []string, counter bool) []string {
		out := append([]string{}, b...)
		if counter {
			out = append(out, "i = i + 1")
		}
		if tail != "" {
			out = append(out, tail)
		}
		return out
	}
	forBody := withTail(body, false)
	if tp.Draw(5) == 0 {
		// a for body that is an else-less conditional return (never taken here): legal for for loops in
		// every position (for a value-producing while the pinned compiler refuses it, DESIGN 5.3)
		forBody = append(append([]string{}, body...), "if i == 1000 {\nreturn 7\n}")
		r.Inc("growth.for_body_ends_in_conditional_return", 1)
	}
	r.Inc("growth.tail."+shapeOf(trunc(tail, 12)), 1)
	var def, call1, call2, topLoop string
	switch kind {
	case 0: // while as the last statement of a function (returning position)
		def = "lp = (n) -> {\ni = 0\nwhile i < n " + gen.Block(withTail(body, true)) + "\n}"
	case 1: // for as the whole function body (returning position)
		def = "lp = (n) -> for i <- fromto(0, n) " + gen.Block(forBody)
	case 2: // while in discarded position
		def = "lp = (n) -> {\ni = 0\nwhile i < n " + gen.Block(withTail(body, true)) + "\ni\n}"
	case 3: // while whose value is used: last statement of a conditional branch in returning position
		def = "lp = (n) -> {\ni = 0\nif n > 0 {\nwhile i < n " + gen.Block(withTail(body, true)) + "\n} else {\n0\n}\n}"
	case 4: // for in discarded position, then a for as the tail of a conditional branch
		def = "lp = (n) -> {\nfor i <- fromto(0, n) " + gen.Block(forBody) + "\nif n > 0 {\nfor i <- fromto(0, n) " + gen.Block(forBody) + "\n}\n}"
	case 10: // the `while true` idiom in discarded position, left by a return; the body still ends in the drawn statement form
		def = "lp = (n) -> {\ni = 0\nwhile true " + gen.Block(append(append(append([]string{}, body...), "i = i + 1", "if i >= n {\nreturn i\n}"), withTail(nil, false)...)) + "\n0\n}"
	case 8: // a generator called as a plain call: every yield only evaluates to its operand, n of them in a row
		def = "lp = (n) -> {\ngg = (m) -> {\ni = 0\nwhile i < m " + gen.Block(append(append([]string{}, body...), "yield i * 2", "i = i + 1")) + "\n}\ngg(n)\nfromto(0, n)\nn\n}"
	case 9: // && and || over call results and indexed values, decided by either side, once per iteration
		def = "lp = (n) -> {\ni = 0\nc = 0\nwhile i < n {\nif pos(i) && false {\nc = c + 1\n}\nif pos(0 - i) || true {\nc = c + 1\n}\nif [true, false][i % 2] && pos(n - i) {\nc = c + 1\n}\nif i < deep(2) || pos(i) {\nc = c + 1\n}\nq = pos(i) && false\ni = i + 1\n}\nc\n}"
	case 7: // top-level loop statement: value displayed in REPL flavour, discarded in script flavour
		def = "lp = 0"
		topLoop = "{\ni = 0\nwhile i < @N@ " + gen.Block(withTail(body, true)) + "\n}"
		if tp.Bool() {
			topLoop = "for i <- fromto(0, @N@) " + gen.Block(forBody)
		}
	case 5: // a generator whose last statement is a while ending in a yield, consumed by a loop
		yt := "yield i * 2"
		if tail != "" && !strings.HasPrefix(tail, "if ") && tp.Bool() {
			yt = "yield " + tail
		}
		def = "lp = (n) -> {\ngg = (m) -> {\ni = 0\nwhile i < m " + gen.Block(append(append(append([]string{}, body...), "i = i + 1"), yt)) + "\n}\ns = 0\nfor e <- gg(n) {\ns = s + 1\n}\ns\n}"
	default: // nested: a for inside a while, both ending in the tail
		def = "lp = (n) -> {\ni = 0\nwhile i < n " + gen.Block(append(append([]string{}, "for e <- fromto(0, 2) "+gen.Block(withTail(body, false))), withTail(nil, true)...)) + "\n}"
	}
	call1 = fmt.Sprintf("lp(%d)", n)
	call2 = fmt.Sprintf("lp(%d)", 2*n)
	if topLoop != "" {
		call1 = strings.ReplaceAll(topLoop, "@N@", fmt.Sprint(n))
		call2 = strings.ReplaceAll(topLoop, "@N@", fmt.Sprint(2*n))
	}
	h := &Hist{Flavour: flavour(sw.Repl), Notes: fmt.Sprintf("growth clause: twin A runs %s, twin B runs %s, then A re-submits %s", call1, call2, call1)}
	key := core.NewHash().Str("growth").Str(h.Flavour).Str(shapeOf(def))
	trace := core.NewHash()

	type res struct {
		maxSP, stackLen int
		o               sess.Outcome
	}
	run := func(call string, twice bool) (out res, stackLen2 int, viol *core.Violation, discard string) {
		s := sess.New()
		s.TrackSP = true
		for _, d := range append(append([]string{}, defs...), def) {
			for _, o := range s.Submit(d+"\n", sw.Repl) {
				r.Instructions += o.Steps
				if o.Kind == sess.KPanic {
					return out, 0, panicViolation("panic", o, h), ""
				}
				if o.Kind != sess.KValue {
					return out, 0, nil, "definition did not evaluate: " + o.Kind + " " + trunc(o.Err, 40)
				}
			}
		}
		outs := s.Submit(call+"\n", sw.Repl)
		r.Statements++
		o := outs[0]
		r.Instructions += o.Steps
		if o.Kind == sess.KPanic {
			return out, 0, panicViolation("panic", o, h), ""
		}
		if o.Kind != sess.KValue {
			return out, 0, nil, "loop statement ended with " + o.Kind + " " + trunc(o.Err, 40)
		}
		m := 0
		for _, v := range s.MaxSP {
			if v > m {
				m = v
			}
		}
		out = res{maxSP: m, stackLen: o.After.StackLen, o: o}
		trace = trace.Str(o.Val).Str(o.Out).Int(m).Int(o.After.StackLen).Int(int(o.Trace))
		if !o.After.AtRest(0) {
			return out, 0, &core.Violation{Clause: "at-rest-after-value", Detail: fmt.Sprintf("after %s: %s", call, o.After), History: h}, ""
		}
		if twice {
			o2 := s.Submit(call+"\n", sw.Repl)[0]
			r.Instructions += o2.Steps
			if o2.Kind != sess.KValue {
				return out, 0, nil, "re-submission ended with " + o2.Kind
			}
			stackLen2 = o2.After.StackLen
		}
		mergeProbes(&r, s)
		return out, stackLen2, nil, ""
	}
	h.Steps = append(h.Steps, Step{Src: def}, Step{Src: call1 + "   ; twin B: " + call2})
	for _, d := range defs {
		h.Steps = append([]Step{{Src: d}}, h.Steps...)
	}
	a, again, v, disc := run(call1, true)
	if v != nil || disc != "" {
		r.Violation, r.Discard, r.Sample = v, disc, h
		return r
	}
	b, _, v, disc := run(call2, false)
	if v != nil || disc != "" {
		r.Violation, r.Discard, r.Sample = v, disc, h
		return r
	}
	if a.maxSP != b.maxSP {
		r.Violation = &core.Violation{Clause: "growth-max-sp", Detail: fmt.Sprintf("maximum sp over all contexts: %d with %d iterations, %d with %d iterations (body identical and stateless)", a.maxSP, n, b.maxSP, 2*n), History: h}
	} else if a.stackLen != b.stackLen {
		r.Violation = &core.Violation{Clause: "growth-stacklen", Detail: fmt.Sprintf("stack length after: %d with %d iterations, %d with %d iterations", a.stackLen, n, b.stackLen, 2*n), History: h}
	} else if again != a.stackLen {
		r.Violation = &core.Violation{Clause: "growth-resubmit", Detail: fmt.Sprintf("re-submitting %s raised the stack length from %d to %d", call1, a.stackLen, again), History: h}
	}
	r.Inc("growth.twin_runs", 1)
	mergeFeat(&r, g)
	r.NonTrivial = true
	r.Key = uint64(key.Int(int(a.o.Trace)))
	r.Interleaving = uint64(trace)
	r.TraceHash = uint64(trace)
	r.Sample = h
	return r
}

// RunScript replays a hand-written history under the conservation invariant.
func (C09) RunScript(raw json.RawMessage) core.Result {
	var r core.Result
	sc, h, err := parseScript(raw)
	if err != nil {
		r.Discard = err.Error()
		return r
	}
	s := sess.New()
	for i, src := range sc.Steps {
		for _, o := range s.Submit(src+"\n", sc.Flavour == "repl") {
			if o.Kind == sess.KPanic {
				r.Violation = panicViolation("panic", o, h)
				return r
			}
			if o.Kind != sess.KParse && !o.After.AtRest(0) {
				r.Violation = &core.Violation{Clause: "at-rest-after-" + o.Kind, Detail: fmt.Sprintf("after step %d (%s): %s", i+1, o.Brief(), o.After), History: h}
				return r
			}
		}
	}
	return r
}
