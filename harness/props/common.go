// Package props holds the per-property simulations built on sess and gen.
package props

import (
	"encoding/json"
	"fmt"
	"strings"

	"verif/core"
	"verif/gen"
	"verif/sess"
	"verif/tape"
)

// Step is one submission of a history.
type Step struct {
	Src   string `json:"src"`
	Fault string `json:"fault,omitempty"` // "", "F1:<class>", "F2", "F3:<k>"
	Abort int    `json:"abort_at,omitempty"`
}

// Hist is a rendered session history.
type Hist struct {
	Flavour string `json:"flavour"` // repl | script
	Steps   []Step `json:"steps"`
	Notes   string `json:"notes,omitempty"`
}

func (h *Hist) add(src string) { h.Steps = append(h.Steps, Step{Src: src}) }

// Swarm is the per-run configuration drawn first from the tape.
type Swarm struct {
	Repl     bool
	NPure    int
	NProc    int
	NGen     int
	NStmts   int
	MaxIter  int
	Prelude  bool
	Closures bool
	TopRet   bool
}

func drawSwarm(tp *tape.Tape) Swarm {
	var sw Swarm
	sw.Repl = !tp.Bool() // 0 -> repl
	sw.NStmts = 1 + tp.Draw(8)
	sw.NPure = tp.Draw(4)
	sw.NGen = tp.Draw(4)
	sw.NProc = tp.Draw(3)
	sw.MaxIter = 2 + tp.Draw(8)
	sw.Prelude = tp.Draw(4) > 0
	sw.Closures = tp.Draw(4) > 0
	sw.TopRet = tp.Bool()
	return sw
}

func flavour(repl bool) string {
	if repl {
		return "repl"
	}
	return "script"
}

// buildDefs draws definitions in a mixed order (generators may use earlier pure functions and vice versa).
func buildDefs(g *gen.G, sw Swarm) []string {
	var srcs []string
	srcs = append(srcs, gen.PreludeSrc[0], gen.PosSrc) // deep and pos: generated bodies may call them
	if sw.Prelude {
		srcs = append(srcs, gen.PreludeSrc[1:]...)
	}
	add := func(d gen.Def) {
		srcs = append(srcs, g.Pre...)
		g.Pre = nil
		srcs = append(srcs, d.Src)
	}
	np, ng, npr := sw.NPure, sw.NGen, sw.NProc
	for np+ng+npr > 0 {
		k := g.T.Draw(3)
		switch {
		case k == 0 && np > 0:
			add(g.DefPure())
			np--
		case k == 1 && ng > 0:
			add(g.DefGen())
			ng--
		case k == 2 && npr > 0:
			add(g.DefProc())
			npr--
		default:
			switch {
			case np > 0:
				add(g.DefPure())
				np--
			case ng > 0:
				add(g.DefGen())
				ng--
			default:
				add(g.DefProc())
				npr--
			}
		}
	}
	return srcs
}

func newGen(tp *tape.Tape, sw Swarm) *gen.G {
	g := gen.New(tp)
	g.MaxIter = sw.MaxIter
	g.NoClosures = !sw.Closures
	if !sw.Prelude {
		// compositions need the prelude combinators
		g.NoCompose = true
	}
	return g
}

func mergeFeat(r *core.Result, g *gen.G) {
	// feature counters are reported as probes of what the workload contained
	for k, v := range g.Feat {
		r.Inc("workload."+k, v)
	}
}

func mergeProbes(r *core.Result, s *sess.Session) {
	for k, v := range s.Probes {
		r.Inc(k, v)
	}
}

func shapeOf(src string) string {
	// statement shape for distinct counting: source with digits collapsed
	var b strings.Builder
	prevDigit := false
	for i := 0; i < len(src); i++ {
		c := src[i]
		if c >= '0' && c <= '9' {
			if !prevDigit {
				b.WriteByte('N')
			}
			prevDigit = true
			continue
		}
		prevDigit = false
		b.WriteByte(c)
	}
	return b.String()
}

func panicViolation(clause string, o sess.Outcome, h *Hist) *core.Violation {
	return &core.Violation{Clause: clause, Detail: fmt.Sprintf("Go panic in %s phase: %s", o.Phase, o.Err), History: h}
}

func trunc(s string, n int) string {
	if len(s) > n {
		return s[:n] + "..."
	}
	return s
}

// Script is a hand-written history (known findings and regressions of repaired defects).
type Script struct {
	Flavour string   `json:"flavour"` // repl (default) | script
	Steps   []string `json:"steps"`
	Stdin   string   `json:"stdin,omitempty"`
	Want    []string `json:"want,omitempty"` // property-specific expectations
}

func parseScript(raw []byte) (Script, *Hist, error) {
	var sc Script
	if err := json.Unmarshal(raw, &sc); err != nil {
		return sc, nil, err
	}
	if sc.Flavour == "" {
		sc.Flavour = "repl"
	}
	h := &Hist{Flavour: sc.Flavour}
	for _, s := range sc.Steps {
		h.add(s)
	}
	return sc, h, nil
}
