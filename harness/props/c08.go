package props

import (
	"encoding/json"
	"fmt"
	"os"
	"strings"

	"github.com/paulsonkoly/calc/parser"
	"github.com/paulsonkoly/calc/types/node"

	"verif/core"
	"verif/gen"
	"verif/sess"
	"verif/tape"
)

// C08: a session survives errors (crash and recovery with durable state = globals).
type C08 struct{}

func init() { core.Register(C08{}) }

func (C08) ID() string    { return "C08" }
func (C08) Level() string { return "exploration" }
func (C08) Runs(t core.Tier) int {
	if t == core.Thorough {
		return 600_000
	}
	return 40_000
}
func (C08) Rule() string {
	return "One run = twin sessions A and B over one generated history (definitions + up to 10 top-level statements). A receives failing statements: F2 unparsable text, F1 runtime errors of every class raised at top level, at call depth d, in loop iteration k, inside a generator or a generator of a generator, each embedded in a statement whose completed global prefix is known, and F3 aborts injected at the k-th fallible instruction of a statement that writes its global last. B receives the completed prefix instead (or nothing). Every later statement must give the same value, output and error class in A and B, and after every failure the machine must be at rest. Non-trivial = at least one fault fired at call depth >= 1 or inside a loop/generator and >= 2 statements ran after it. Distinct = hash of statement shapes, fault plan and context-switch traces."
}
func (C08) Assumptions() []string {
	return []string{
		"the failing statement's own output may be any prefix of the fault-free output followed by one report; nothing else is relaxed",
		"error reports quote instruction indices, which legitimately differ between twins; they are cut from the compared output (C19 checks them)",
		"F3 only aborts at opcodes that can really raise a runtime error from operand data",
	}
}
func (C08) RealComponents() []string { return C09{}.RealComponents() }
func (C08) StubComponents() []string { return C09{}.StubComponents() }

// BombSrc are the fault carriers: functions that fail at a dynamic point chosen by their arguments.
var BombSrc = []string{
	"bomb = (d, c) -> if d <= 0 {\n1 / c\n} else {\nbomb(d - 1, c) + 1\n}",
	"bidx = (d, a) -> if d <= 0 {\na[#a]\n} else {\nbidx(d - 1, a) + 1\n}",
	"btyp = (d, a) -> if d <= 0 {\na + 1\n} else {\nbtyp(d - 1, a) + 1\n}",
	"bgen = (n, k, c) -> {\ni = 0\nwhile i < n {\nif i == k {\nz = 1 / c\n}\nyield i\ni = i + 1\n}\n}",
	"bloop = (n, k, d) -> {\ns = 0\nfor e <- fromto(0, n) {\nif e == k {\ns = s + bomb(d, 0)\n}\ns = s + e\n}\ns\n}",
	"bnest = (n, k) -> {\ns = 0\nfor a <- map((x) -> x + 1, () -> bgen(n, k, 0)) {\ns = s + a\n}\ns\n}",
	"bwalk = (n, c) -> {\nif n > 0 {\nfor e <- bwalk(n - 1, c) {\nyield e\n}\n} else {\nz = 1 / c\n}\nyield n\n}",
	"bzip = (n, k) -> {\ns = 0\nfor a, b <- fromto(0, n), bgen(n, k, 0) {\ns = s + a + b\n}\ns\n}",
}

type fault struct {
	a, b  string // what A and B submit (b may be "")
	tag   string
	depth bool // fired at depth>=1 or inside loop/generator
	// probes are statements that use what the completed prefix bound (functions, generators,
	// arrays); they are submitted to both sessions after later statements have compiled new code.
	probes []string
	// open: the failing text leaves a brace open, so in a line stream it legitimately keeps
	// absorbing the following lines; such faults are left out of the stream phase.
	open bool
}

// drawFault builds a failing statement and its failure-free twin.
func drawFault(tp *tape.Tape, fresh func() string) fault {
	x, y, z := fresh(), fresh(), fresh()
	pre := x + " = " + fmt.Sprint(1+tp.Draw(9))
	var probes []string
	switch tp.Draw(7) {
	case 6: // ... a function that calls itself and, at the bottom, fails: a later failure runs through call sites compiled inside the failed statement
		pre = fmt.Sprintf("%s = (n) -> if n <= 0 {\n%d / (n - n)\n} else {\nn + %s(n - 1)\n}", x, 1+tp.Draw(9), x)
		probes = []string{fmt.Sprintf("%s(%d)", x, 1+tp.Draw(4))}
	case 1: // the completed prefix binds a function: its code lives inside the failed statement
		c := 2 + tp.Draw(7)
		pre = fmt.Sprintf("%s = (n) -> n * %d + %d", x, c, tp.Draw(9))
		probes = []string{fmt.Sprintf("%s(%d)", x, 1+tp.Draw(9))}
	case 2: // ... a generator
		c := 1 + tp.Draw(7)
		pre = fmt.Sprintf("%s = (n) -> {\nyield n\nyield n + %d\nyield n * 2\n}", x, c)
		lv := fresh()
		probes = []string{fmt.Sprintf("for %s <- %s(%d) {\nwrite(toa(%s) + \";\")\n}", lv, x, tp.Draw(9), lv)}
	case 3: // ... a recursive function and a closure maker
		pre = fmt.Sprintf("%s = (n) -> if n <= 0 {\n%d\n} else {\nn + %s(n - 1)\n}", x, tp.Draw(9), x)
		probes = []string{fmt.Sprintf("%s(%d)", x, tp.Draw(6))}
	case 4: // ... an array holding computed elements and a string
		pre = fmt.Sprintf("%s = [%d, \"s%d\", [%d + %d]]", x, tp.Draw(9), tp.Draw(9), tp.Draw(9), tp.Draw(9))
		probes = []string{x, "#" + x}
	}
	post := z + " = 7"
	mk := func(a, b, tag string, depth bool) fault {
		f := fault{a: a, b: b, tag: tag, depth: depth}
		if b == pre && b != "" {
			f.probes = probes
		}
		return f
	}
	wrap := func(failing string) (string, string) {
		switch tp.Draw(5) {
		case 3: // the statement writes before it fails: what it wrote belongs to it, not to a later statement
			w := fmt.Sprintf("write(\"w%s;\")", x)
			return "{\n" + w + "\n" + y + " = " + failing + "\nwrite(\"never\")\n}", w
		case 4: // writes from inside a function and a loop, then fails at depth
			w := fmt.Sprintf("for %s <- fromto(0, 2) {\nwrite(\"l\" + toa(%s))\n}", x, x)
			return "{\n" + w + "\n" + failing + "\n}", w
		case 0: // bare failing assignment, nothing completed
			return y + " = " + failing, ""
		case 1: // block with completed prefix
			return "{\n" + pre + "\n" + y + " = " + failing + "\n" + post + "\n}", pre
		default: // failing expression statement
			return failing, ""
		}
	}
	d := tp.Draw(6)
	if tp.Draw(8) == 0 {
		d = 100 + tp.Draw(400) // a failure hundreds of calls deep
	}
	switch tp.Draw(15) {
	case 14: // three failures on consecutive lines, each tens of thousands of calls deep: whatever a failure leaves behind per abandoned call must not add up against later statements
		if tp.Draw(12) == 0 {
			fn := []string{"bomb(%d, 0)", "btyp(%d, \"s\")", "bidx(%d, [1, 2, 3])"}[tp.Draw(3)]
			var three []string
			for i := 0; i < 3; i++ {
				three = append(three, y+" = "+fmt.Sprintf(fn, 23000+tp.Draw(20000)))
			}
			return fault{a: strings.Join(three, "\n"), tag: "F1.three_failures_tens_of_thousands_of_calls_deep", depth: true}
		}
		a, b := wrap(fmt.Sprintf("bomb(%d, 0)", d))
		return mk(a, b, "F1.zero_div.depth", true)
	case 13: // a failure at the bottom of n generators nested in one another (n iterator contexts alive when it happens)
		n := 2 + tp.Draw(6)
		if d >= 100 {
			n = d
		}
		v := fresh()
		one := fmt.Sprintf("for %s <- bwalk(%d, 0) {\n%s = %s\n}", v, n, y, v)
		if tp.Draw(3) == 0 { // three such failures on consecutive lines, several hundred contexts alive each time
			n = 350 + tp.Draw(200)
			one = fmt.Sprintf("for %s <- bwalk(%d, 0) {\n%s = %s\n}", v, n, y, v)
			one = one + "\n" + one + "\n" + one
		}
		return fault{a: one, tag: "F1.bottom_of_nested_generators", depth: true}
	case 12: // two statements on one physical line, the first one fails: the second still runs
		v := fresh()
		a := fmt.Sprintf("%s = bomb(%d, 0) %s = %d", y, d%6, v, 100+tp.Draw(900))
		f := fault{a: a, b: fmt.Sprintf("%s = %d", v, 0), tag: "F1.first_of_two_statements_on_a_line", depth: true}
		f.b = a[strings.Index(a, v+" = "):]
		f.probes = []string{"write(toa(" + v + "))"}
		return f
	case 0:
		a, b := wrap("1 / 0")
		return mk(a, b, "F1.zero_div.top", false)
	case 1:
		a, b := wrap(fmt.Sprintf("bomb(%d, 0)", d))
		return mk(a, b, "F1.zero_div.depth", true)
	case 2:
		a, b := wrap(fmt.Sprintf("bidx(%d, [1, 2, 3])", d))
		return mk(a, b, "F1.index.depth", true)
	case 3:
		a, b := wrap(fmt.Sprintf("btyp(%d, \"s\")", d))
		return mk(a, b, "F1.type.depth", true)
	case 4:
		a, b := wrap(fmt.Sprintf("btyp(%d, nosuchname)", d))
		return mk(a, b, "F1.nil.depth", true)
	case 5:
		a, b := wrap("bomb(1)")
		return mk(a, b, "F1.arity", false)
	case 6:
		a, b := wrap("aton(\"zz\")")
		return mk(a, b, "F1.conversion", false)
	case 7:
		n := 2 + tp.Draw(5)
		a, b := wrap(fmt.Sprintf("bloop(%d, %d, %d)", n, tp.Draw(n), d))
		return mk(a, b, "F1.in_loop_body", true)
	case 8:
		n := 2 + tp.Draw(5)
		a, b := wrap(fmt.Sprintf("bnest(%d, %d)", n, tp.Draw(n)))
		return mk(a, b, "F1.in_generator_of_generator", true)
	case 9:
		n := 2 + tp.Draw(5)
		a, b := wrap(fmt.Sprintf("bzip(%d, %d)", n, tp.Draw(n)))
		return mk(a, b, "F1.in_zip_member", true)
	case 10: // top-level loop over a failing generator: the body assigns globals before the failure
		n := 2 + tp.Draw(5)
		k := tp.Draw(n)
		v := fresh()
		a := fmt.Sprintf("for %s <- bgen(%d, %d, 0) {\n%s = %s * 2\n}", v, n, k, y, v)
		b := fmt.Sprintf("for %s <- fromto(0, %d) {\n%s = %s * 2\n}", v, k, y, v)
		if tp.Bool() && k > 0 { // the body binds a function in every completed iteration
			a = fmt.Sprintf("for %s <- bgen(%d, %d, 0) {\n%s = (n) -> n * 3 + %d\n}", v, n, k, y, k)
			b = fmt.Sprintf("for %s <- fromto(0, %d) {\n%s = (n) -> n * 3 + %d\n}", v, k, y, k)
			f := mk(a, b, "F1.toplevel_for_over_failing_generator", true)
			f.probes = []string{fmt.Sprintf("%s(%d)", y, tp.Draw(9))}
			return f
		}
		return mk(a, b, "F1.toplevel_for_over_failing_generator", true)
	default: // unparsable text
		g := []string{"1 +)", "x = ", "if", "1 $ 2", "{\n1\n", "for a <- ", "(1, 2", "\"abc", "f(,)", "1 = 2", "}", "else 2", "]", "1 + ]", "qx = [1, 2", "}}", "f(1)) }", "[1, 2]]"}
		s := g[tp.Draw(len(g))]
		if s == "\"abc" { // unterminated string without newline spins the lexer (C06, unclaimed): keep out
			s = "1 +)"
		}
		f := fault{a: s, tag: "F2.garbage", open: strings.Count(s, "{") > strings.Count(s, "}") || strings.Count(s, "[") > strings.Count(s, "]")}
		if tp.Draw(3) == 0 {
			// a well-formed statement followed by a syntax error on the same line: the input as a
			// whole does not parse, so none of it may take effect ("parse errors add no code")
			v := fresh()
			f.a = fmt.Sprintf("%s = %d %s", v, 100+tp.Draw(900), []string{")", "}", "]", "$", "= 2", "else"}[tp.Draw(6)])
			f.open = false
			f.tag = "F2.statement_then_syntax_error"
			f.probes = []string{"write(toa(" + v + "))"}
		}
		return f
	}
}

var c08Runs int

func (C08) Run(tp *tape.Tape) core.Result {
	var r core.Result
	// every 32nd run of a worker: what the parser makes of a fixed set of statements must not have
	// changed since the process started, however many statements, failures and sessions came between
	c08Runs++
	if c08Runs%32 == 1 {
		r.Inc("probe.parse_canary_checked", 1)
		if same, detail := sess.ParseCanary(); !same {
			r.Violation = &core.Violation{Clause: "parse-depends-on-history", Detail: detail, History: &Hist{Notes: "no history to replay: the difference is between the first and a later parse of the same texts in one process; replay re-runs the search from this seed"}}
			return r
		}
	}
	sw := drawSwarm(tp)
	sw.Prelude = true
	g := newGen(tp, sw)
	h := &Hist{Flavour: flavour(sw.Repl)}
	A, B := sess.New(), sess.New()
	faultRate := tp.Draw(4) // 0: fault-free configuration
	abortRate := tp.Draw(3) // 0: no injected aborts
	key := core.NewHash().Str(h.Flavour)
	trace := core.NewHash()
	firedDeep, afterFault := false, 0
	streamPhase := tp.Draw(3) == 2 // 0: in-process twin only
	var lsteps []lstep
	var pending, allProbes []string
	var condLocal gen.Def
	nDefs := 0         // the definitions at the head of the history share one marker in the stream phase
	sawBudget := false // a statement ran into the per-statement instruction budget: no stream phase (the loop has no statement boundaries to budget by)
	top := g.TopScope(sw.TopRet)
	nfresh := 0
	fresh := func() string {
		nfresh++
		return "q" + string(rune('a'+(nfresh-1)%26)) + string(rune('a'+(nfresh-1)/26))
	}

	check := func(label string, oa, ob []sess.Outcome) bool {
		if len(oa) != len(ob) {
			r.Violation = &core.Violation{Clause: "twin-outcome-count", Detail: fmt.Sprintf("%s: A produced %d outcomes, B %d", label, len(oa), len(ob)), History: h}
			return true
		}
		for i := range oa {
			if !oa[i].Same(ob[i]) {
				r.Violation = &core.Violation{Clause: "twin-differs-" + oa[i].Kind + "-vs-" + ob[i].Kind,
					Detail:  fmt.Sprintf("%s: session A (saw the failures): %s | twin B (never saw them): %s", label, oa[i].Brief(), ob[i].Brief()),
					History: h}
				return true
			}
		}
		return false
	}
	rest := func(label string, s *sess.Session, outs []sess.Outcome) bool {
		for _, o := range outs {
			r.Instructions += o.Steps
			if o.Kind == sess.KBudget {
				sawBudget = true
			}
			trace = trace.Str(o.Kind).Str(o.Val).Str(o.Out).Str(o.Err)
			key = key.Int(int(o.Trace))
			if o.Kind == sess.KPanic {
				r.Violation = panicViolation("panic", o, h)
				return true
			}
			if o.Report != "" && collapseReports(o.Report) != "RUNTIME ERROR" {
				// what a failing statement wrote before it failed comes before its report; nothing follows the report
				r.Violation = &core.Violation{Clause: "output-after-report", Detail: fmt.Sprintf("%s: after the error report the statement's output goes on with %q", label, trunc(strings.TrimPrefix(collapseReports(o.Report), "RUNTIME ERROR"), 200)), History: h}
				return true
			}
			if o.Kind != sess.KParse && !o.After.AtRest(0) {
				r.Violation = &core.Violation{Clause: "at-rest-after-" + o.Kind, Detail: fmt.Sprintf("%s: %s", label, o.After), History: h}
				return true
			}
		}
		return false
	}
	both := func(src string) bool {
		h.add(src)
		lsteps = append(lsteps, lstep{a: src, b: src, cmp: true})
		key = key.Str(shapeOf(src))
		oa := A.Submit(src+"\n", sw.Repl)
		ob := B.Submit(src+"\n", sw.Repl)
		r.Statements++
		if rest("A after "+trunc(src, 40), A, oa) || rest("B after "+trunc(src, 40), B, ob) {
			return true
		}
		if oa[0].Kind == sess.KParse {
			r.Discard = "generator produced unparsable text: " + trunc(oa[0].Err, 60)
			return true
		}
		if afterFault > 0 || firedDeep {
			afterFault++
		}
		return check("statement "+fmt.Sprint(len(h.Steps))+" "+trunc(src, 60), oa, ob)
	}

	for _, d := range append(append([]string{}, BombSrc...), buildDefs(g, sw)...) {
		if both(d) {
			goto done
		}
	}
	// a function whose locals are mostly unassigned on the path taken: after failures it must still read them as nil
	condLocal = g.DefCondLocals()
	if both(condLocal.Src) {
		goto done
	}
	nDefs = len(lsteps)
	for i := 0; i < sw.NStmts+2; i++ {
		// fault?
		if faultRate > 0 && tp.Draw(5-faultRate) == 0 {
			n := 1 + tp.Draw(2)*tp.Draw(2) // sometimes several in a row
			for j := 0; j < n; j++ {
				f := drawFault(tp, fresh)
				h.Steps = append(h.Steps, Step{Src: f.a, Fault: f.tag + " | twin B gets: " + f.b})
				key = key.Str(f.tag).Str(shapeOf(f.a))
				oa := A.Submit(f.a+"\n", sw.Repl)
				r.Statements++
				if rest("A after failing "+trunc(f.a, 40), A, oa) {
					goto done
				}
				last := oa[len(oa)-1]
				failedAny := false
				for _, o := range oa {
					if o.Kind == sess.KError || o.Kind == sess.KParse {
						failedAny = true
					}
				}
				if !failedAny {
					r.Violation = &core.Violation{Clause: "fault-did-not-fail", Detail: fmt.Sprintf("failing statement %q ended with %s", f.a, last.Brief()), History: h}
					goto done
				}
				r.Inc(f.tag, 1)
				if !f.open {
					lsteps = append(lsteps, lstep{a: f.a, b: f.b, multi: f.tag == "F1.first_of_two_statements_on_a_line"})
				}
				if len(f.probes) > 0 {
					pending = append(pending, f.probes...)
					allProbes = append(allProbes, f.probes...)
					r.Inc("F1.completed_prefix_binds_function_or_array", 1)
				}
				if f.depth {
					firedDeep = true
					afterFault = 0
				}
				if f.b != "" {
					ob := B.Submit(f.b+"\n", sw.Repl)
					if rest("B after prefix "+trunc(f.b, 40), B, ob) {
						goto done
					}
					if ob[len(ob)-1].Kind != sess.KValue {
						r.Violation = &core.Violation{Clause: "twin-prefix-failed", Detail: fmt.Sprintf("completed prefix %q ended with %s", f.b, ob[len(ob)-1].Brief()), History: h}
						goto done
					}
				}
			}
		}
		if tp.Draw(8) == 0 {
			r.Inc("probe.unassigned_locals_after_failures", 1)
			if both(fmt.Sprintf("toa(%s(%d))", condLocal.Name, tp.Draw(6))) {
				goto done
			}
		}
		if tp.Draw(12) == 0 {
			// a recursion several hundred calls deep: whatever the failures left behind must not count against it
			r.Inc("F8.deep_recursion_after_failures", 1)
			if both(fmt.Sprintf("deep(%d)", 600+tp.Draw(400))) {
				goto done
			}
		}
		lines := g.TopStmt(top)
		for _, l := range lines {
			if abortRate > 0 && tp.Draw(6-abortRate) == 0 {
				// F3: statement that writes its global last: gx = <pure call or expression>
				v := fresh()
				src := v + " = " + g.IntExpr(top, 2)
				k := 1 + tp.Draw(30)
				A.AbortAt = k
				oa := A.Submit(src+"\n", sw.Repl)
				A.AbortAt = 0
				r.Statements++
				if rest("A after abort "+trunc(src, 40), A, oa) {
					goto done
				}
				fired := oa[0].Kind == sess.KAbort
				st := Step{Src: src, Fault: fmt.Sprintf("F3:%d fired=%v", k, fired), Abort: k}
				h.Steps = append(h.Steps, st)
				key = key.Str("F3").Int(k).Str(shapeOf(src))
				if fired {
					r.Inc("F3.abort_fired", 1)
					if oa[0].Steps > 5 {
						firedDeep = true
						afterFault = 0
					}
				} else {
					// the statement completed in A (normally or with its own error): B must run it too
					lsteps = append(lsteps, lstep{a: src, b: src, cmp: true})
					ob := B.Submit(src+"\n", sw.Repl)
					if rest("B "+trunc(src, 40), B, ob) || check("statement (abort not reached) "+trunc(src, 60), oa, ob) {
						goto done
					}
				}
			}
			if both(l) {
				goto done
			}
		}
		if len(pending) > 0 && tp.Bool() {
			for _, pr := range pending {
				r.Inc("probe.use_of_binding_completed_inside_failed_statement", 1)
				if both(pr) {
					goto done
				}
			}
			pending = nil
		}
	}
	for _, pr := range allProbes { // once more at the end: code compiled since then sits where the failed statement's would
		r.Inc("probe.use_of_binding_completed_inside_failed_statement", 1)
		if both(pr) {
			goto done
		}
	}
	if streamPhase && faultRate > 0 && !sawBudget {
		r.Inc("stream.histories_through_node_Loop", 1)
		h.Notes = "stream phase: the steps above, each followed by write(\"\\n@@i@@\\n\"), through node.Loop over a real file; failing steps replaced by their completed prefix for twin B"
		if v := c08Stream(lsteps, nDefs, sw.Repl, false, &r, h, &trace); v != nil {
			r.Violation = v
		} else if tp.Draw(12) == 0 {
			// and through the built binary as a REPL fed from a file
			if _, err := os.Stat(CalcBinary); err == nil {
				r.Inc("stream.histories_through_cmd_calc_repl", 1)
				if v := c08Stream(lsteps, nDefs, true, true, &r, h, &trace); v != nil {
					v.Clause = "binary-" + v.Clause
					r.Violation = v
				}
			}
		}
	}
done:
	mergeFeat(&r, g)
	mergeProbes(&r, A)
	r.NonTrivial = firedDeep && afterFault >= 2
	r.Key = uint64(key)
	r.Interleaving = uint64(trace)
	r.TraceHash = uint64(trace)
	r.Sample = h
	return r
}

func shmDir() string {
	if st, err := os.Stat("/dev/shm"); err == nil && st.IsDir() {
		return "/dev/shm"
	}
	return ""
}

// cutReports removes runtime error reports (they quote instruction indices, which differ
// between twins) from a step's output: everything from "RUNTIME ERROR" to the end of the step.
func cutReports(s string) string {
	if i := strings.Index(s, "RUNTIME ERROR : "); i >= 0 {
		return s[:i] + "<report>"
	}
	return s
}

// lstep is one step of a stream history: what the failing session and its failure-free twin read.
type lstep struct {
	a, b string
	cmp  bool
	// multi: the step holds several statements on one line; output after a report is then the next statement's
	multi bool
}

// c08Stream runs the stream phase of C08: the same history through the real read-eval loop
// (node.Loop + FReader + processInput) on a real file, once with the failing statements and once
// with their completed prefixes; a marker statement after every step delimits its output.
func c08Stream(lsteps []lstep, nDefs int, repl, binary bool, r *core.Result, h *Hist, digest *core.Hash64) *core.Violation {
	if binary {
		repl = true
	}
	where := "node.Loop"
	if binary {
		where = "the cmd/calc REPL"
	}
	// Stream phase: the same history through the real read-eval loop (node.Loop + FReader +
	// processInput) on a real file, once with the failing statements and once with their
	// completed prefixes; a marker statement after every step delimits its output.
	render := func(pickA bool) string {
		var b strings.Builder
		for i, st := range lsteps {
			t := st.a
			if !pickA {
				t = st.b
			}
			if t != "" {
				b.WriteString(t + "\n")
			}
			if i >= nDefs-1 {
				fmt.Fprintf(&b, "write(\"\\n@@%d@@\\n\")\n", i)
			}
		}
		return b.String()
	}
	exec := func(text string) (out string, pmsg string) {
		f, err := os.CreateTemp(shmDir(), "simcalc-c08-*")
		if err != nil {
			return "", "tempfile: " + err.Error()
		}
		name := f.Name()
		f.WriteString(text)
		f.Close()
		defer os.Remove(name)
		if binary {
			// the built cmd/calc as a REPL, standard input redirected from the file (readline's
			// non-terminal path: lines arrive without their line break, unlike file mode)
			o, code, hung := runBinary(name, nil)
			if hung {
				return o, "cmd/calc did not terminate"
			}
			if code != 0 {
				return o, fmt.Sprintf("cmd/calc ended with exit status %d", code)
			}
			return strings.TrimPrefix(o, "calc repl\n"), ""
		}
		defer func() {
			if p := recover(); p != nil {
				pmsg = fmt.Sprint(p)
				sess.TakeOutput()
			}
		}()
		s := sess.New()
		s.Budget = int64(len(lsteps)+1) * sess.DefaultBudget // every statement stayed inside DefaultBudget in the twin phase
		s.Activate()
		fr := node.NewFReader(name)
		defer fr.Close()
		node.Loop(fr, parser.Type{}, s.VM, repl)
		r.Instructions += s.Steps
		return sess.TakeOutput(), ""
	}
	runLoop := func(text string) (segs []string, pmsg string) {
		out, pmsg := exec(text)
		if pmsg != "" {
			return []string{out}, pmsg
		}
		for i := range lsteps {
			if i < nDefs-1 {
				segs = append(segs, "")
				continue
			}
			mark := fmt.Sprintf("\n@@%d@@\n", i)
			k := strings.Index(out, mark)
			if k < 0 {
				segs = append(segs, out)
				return segs, fmt.Sprintf("marker %d never printed", i)
			}
			segs = append(segs, out[:k])
			out = out[k+len(mark):]
			if repl { // the marker statement's own "> nil" line
				if nl := strings.IndexByte(out, '\n'); nl >= 0 {
					out = out[nl+1:]
				}
			}
		}
		return segs, ""
	}
	sa, ea := runLoop(render(true))
	sb, eb := runLoop(render(false))
	if eb != "" {
		r.Violation = &core.Violation{Clause: "stream-twin-broken", Detail: "failure-free stream: " + eb + "; output so far " + trunc(strings.Join(sb, "|"), 300), History: h}
		return r.Violation
	}
	if ea != "" {
		r.Violation = &core.Violation{Clause: "stream-session-lost", Detail: "stream with failing statements: " + ea + " (everything after it was never evaluated or the loop died); last output " + trunc(strings.Join(sa, "|"), 300), History: h}
		return r.Violation
	}
	for i := range lsteps {
		for _, seg := range []string{sa[i], sb[i]} {
			if strings.Contains(seg, "giving up") {
				r.Violation = &core.Violation{Clause: "stream-report-gave-up", Detail: fmt.Sprintf("step %d %q through %s: the error report could not be produced: %q", i, trunc(lsteps[i].a, 60), where, trunc(seg, 400)), History: h}
				return r.Violation
			}
			if c := collapseReports(seg); !lsteps[i].multi && strings.Contains(c, "RUNTIME ERROR") && !strings.HasSuffix(c, "RUNTIME ERROR") {
				r.Violation = &core.Violation{Clause: "stream-output-after-report", Detail: fmt.Sprintf("step %d %q through %s: output goes on after the error report: %q", i, trunc(lsteps[i].a, 60), where, trunc(c, 200)), History: h}
				return r.Violation
			}
		}
	}
	for i, st := range lsteps {
		if !st.cmp {
			continue
		}
		ca, cb := cutReports(sa[i]), cutReports(sb[i])
		if digest != nil {
			*digest = digest.Str(ca)
		}
		if ca != cb {
			r.Violation = &core.Violation{Clause: "stream-twin-differs", Detail: fmt.Sprintf("step %d %q through %s: after the failures it printed %q, in the failure-free stream %q", i, trunc(st.a, 60), where, trunc(ca, 200), trunc(cb, 200)), History: h}
			return r.Violation
		}
	}
	return r.Violation
}

// RunScript: steps are the lines of a stream; a step starting with "!" is a failing statement
// that the failure-free twin never sees ("!text" or "!text|completed prefix").
func (C08) RunScript(raw json.RawMessage) core.Result {
	var r core.Result
	sc, h, err := parseScript(raw)
	if err != nil {
		r.Discard = err.Error()
		return r
	}
	var ls []lstep
	for _, st := range sc.Steps {
		if strings.HasPrefix(st, "!") {
			a, b, _ := strings.Cut(st[1:], "|")
			ls = append(ls, lstep{a: a, b: b})
		} else {
			ls = append(ls, lstep{a: st, b: st, cmp: true})
		}
	}
	if c08Stream(ls, 0, sc.Flavour == "repl", false, &r, h, nil) == nil {
		if _, err := os.Stat(CalcBinary); err == nil {
			if v := c08Stream(ls, 0, true, true, &r, h, nil); v != nil {
				v.Clause = "binary-" + v.Clause
			}
		}
	}
	return r
}
