package props

import (
	"fmt"

	"verif/core"
	"verif/sess"
	"verif/tape"
)

// C08: a session survives errors (crash and recovery with durable state = globals).
type C08 struct{}

func init() { core.Register(C08{}) }

func (C08) ID() string    { return "C08" }
func (C08) Level() string { return "exploration" }
func (C08) Runs(t core.Tier) int {
	if t == core.Thorough {
		return 2_000_000
	}
	return 40_000
}
func (C08) Rule() string {
	return "One run = twin sessions A and B over one generated history (definitions + up to 10 top-level statements). A receives failing statements: F2 unparsable text, F1 runtime errors of every class raised at top level, at call depth d, in loop iteration k, inside a generator or a generator of a generator, each embedded in a statement whose completed global prefix is known, and F3 aborts injected at the k-th fallible instruction of a statement that writes its global last. B receives the completed prefix instead (or nothing). Every later statement must give the same value, output and error class in A and B, and after every failure the machine must be at rest. Non-trivial = at least one fault fired at call depth >= 1 or inside a loop/generator and >= 2 statements ran after it. Distinct = hash of statement shapes, fault plan and context-switch traces."
}
func (C08) Assumptions() []string {
	return []string{
		"the failing statement's own output may be any prefix of the fault-free output followed by one report; nothing else is relaxed",
		"error reports quote instruction indices, which legitimately differ between twins; they are cut from the compared output (C19 checks them)",
		"F3 only aborts at opcodes that can really raise a runtime error from operand data",
	}
}
func (C08) RealComponents() []string { return C09{}.RealComponents() }
func (C08) StubComponents() []string { return C09{}.StubComponents() }

// BombSrc are the fault carriers: functions that fail at a dynamic point chosen by their arguments.
var BombSrc = []string{
	"bomb = (d, c) -> if d <= 0 {\n1 / c\n} else {\nbomb(d - 1, c) + 1\n}",
	"bidx = (d, a) -> if d <= 0 {\na[#a]\n} else {\nbidx(d - 1, a) + 1\n}",
	"btyp = (d, a) -> if d <= 0 {\na + 1\n} else {\nbtyp(d - 1, a) + 1\n}",
	"bgen = (n, k, c) -> {\ni = 0\nwhile i < n {\nif i == k {\nz = 1 / c\n}\nyield i\ni = i + 1\n}\n}",
	"bloop = (n, k, d) -> {\ns = 0\nfor e <- fromto(0, n) {\nif e == k {\ns = s + bomb(d, 0)\n}\ns = s + e\n}\ns\n}",
	"bnest = (n, k) -> {\ns = 0\nfor a <- map((x) -> x + 1, () -> bgen(n, k, 0)) {\ns = s + a\n}\ns\n}",
	"bzip = (n, k) -> {\ns = 0\nfor a, b <- fromto(0, n), bgen(n, k, 0) {\ns = s + a + b\n}\ns\n}",
}

type fault struct {
	a, b  string // what A and B submit (b may be "")
	tag   string
	depth bool // fired at depth>=1 or inside loop/generator
}

// drawFault builds a failing statement and its failure-free twin.
func drawFault(tp *tape.Tape, fresh func() string) fault {
	x, y, z := fresh(), fresh(), fresh()
	pre := x + " = " + fmt.Sprint(1+tp.Draw(9))
	post := z + " = 7"
	wrap := func(failing string) (string, string) {
		switch tp.Draw(3) {
		case 0: // bare failing assignment, nothing completed
			return y + " = " + failing, ""
		case 1: // block with completed prefix
			return "{\n" + pre + "\n" + y + " = " + failing + "\n" + post + "\n}", pre
		default: // failing expression statement
			return failing, ""
		}
	}
	d := tp.Draw(6)
	switch tp.Draw(12) {
	case 0:
		a, b := wrap("1 / 0")
		return fault{a, b, "F1.zero_div.top", false}
	case 1:
		a, b := wrap(fmt.Sprintf("bomb(%d, 0)", d))
		return fault{a, b, "F1.zero_div.depth", true}
	case 2:
		a, b := wrap(fmt.Sprintf("bidx(%d, [1, 2, 3])", d))
		return fault{a, b, "F1.index.depth", true}
	case 3:
		a, b := wrap(fmt.Sprintf("btyp(%d, \"s\")", d))
		return fault{a, b, "F1.type.depth", true}
	case 4:
		a, b := wrap(fmt.Sprintf("btyp(%d, nosuchname)", d))
		return fault{a, b, "F1.nil.depth", true}
	case 5:
		a, b := wrap("bomb(1)")
		return fault{a, b, "F1.arity", false}
	case 6:
		a, b := wrap("aton(\"zz\")")
		return fault{a, b, "F1.conversion", false}
	case 7:
		n := 2 + tp.Draw(5)
		a, b := wrap(fmt.Sprintf("bloop(%d, %d, %d)", n, tp.Draw(n), d))
		return fault{a, b, "F1.in_loop_body", true}
	case 8:
		n := 2 + tp.Draw(5)
		a, b := wrap(fmt.Sprintf("bnest(%d, %d)", n, tp.Draw(n)))
		return fault{a, b, "F1.in_generator_of_generator", true}
	case 9:
		n := 2 + tp.Draw(5)
		a, b := wrap(fmt.Sprintf("bzip(%d, %d)", n, tp.Draw(n)))
		return fault{a, b, "F1.in_zip_member", true}
	case 10: // top-level loop over a failing generator: the body assigns globals before the failure
		n := 2 + tp.Draw(5)
		k := tp.Draw(n)
		v := fresh()
		a := fmt.Sprintf("for %s <- bgen(%d, %d, 0) {\n%s = %s * 2\n}", v, n, k, y, v)
		b := fmt.Sprintf("for %s <- fromto(0, %d) {\n%s = %s * 2\n}", v, k, y, v)
		return fault{a, b, "F1.toplevel_for_over_failing_generator", true}
	default: // unparsable text
		g := []string{"1 +)", "x = ", "if", "1 $ 2", "{\n1\n", "for a <- ", "(1, 2", "\"abc", "f(,)", "1 = 2", "}", "else 2"}
		s := g[tp.Draw(len(g))]
		if s == "\"abc" { // unterminated string without newline spins the lexer (C06, unclaimed): keep out
			s = "1 +)"
		}
		return fault{s, "", "F2.garbage", false}
	}
}

func (C08) Run(tp *tape.Tape) core.Result {
	var r core.Result
	sw := drawSwarm(tp)
	sw.Prelude = true
	g := newGen(tp, sw)
	h := &Hist{Flavour: flavour(sw.Repl)}
	A, B := sess.New(), sess.New()
	faultRate := tp.Draw(4)  // 0: fault-free configuration
	abortRate := tp.Draw(3)  // 0: no injected aborts
	key := core.NewHash().Str(h.Flavour)
	trace := core.NewHash()
	firedDeep, afterFault := false, 0
	top := g.TopScope(sw.TopRet)
	nfresh := 0
	fresh := func() string { nfresh++; return "q" + string(rune('a'+(nfresh-1)%26)) + string(rune('a'+(nfresh-1)/26)) }

	check := func(label string, oa, ob []sess.Outcome) bool {
		if len(oa) != len(ob) {
			r.Violation = &core.Violation{Clause: "twin-outcome-count", Detail: fmt.Sprintf("%s: A produced %d outcomes, B %d", label, len(oa), len(ob)), History: h}
			return true
		}
		for i := range oa {
			if !oa[i].Same(ob[i]) {
				r.Violation = &core.Violation{Clause: "twin-differs-" + oa[i].Kind + "-vs-" + ob[i].Kind,
					Detail:  fmt.Sprintf("%s: session A (saw the failures): %s | twin B (never saw them): %s", label, oa[i].Brief(), ob[i].Brief()),
					History: h}
				return true
			}
		}
		return false
	}
	rest := func(label string, s *sess.Session, outs []sess.Outcome) bool {
		for _, o := range outs {
			r.Instructions += o.Steps
			trace = trace.Str(o.Kind).Str(o.Val).Str(o.Out).Str(o.Err)
			key = key.Int(int(o.Trace))
			if o.Kind == sess.KPanic {
				r.Violation = panicViolation("panic", o, h)
				return true
			}
			if o.Kind != sess.KParse && !o.After.AtRest(0) {
				r.Violation = &core.Violation{Clause: "at-rest-after-" + o.Kind, Detail: fmt.Sprintf("%s: %s", label, o.After), History: h}
				return true
			}
		}
		return false
	}
	both := func(src string) bool {
		h.add(src)
		key = key.Str(shapeOf(src))
		oa := A.Submit(src+"\n", sw.Repl)
		ob := B.Submit(src+"\n", sw.Repl)
		r.Statements++
		if rest("A after "+trunc(src, 40), A, oa) || rest("B after "+trunc(src, 40), B, ob) {
			return true
		}
		if oa[0].Kind == sess.KParse {
			r.Discard = "generator produced unparsable text: " + trunc(oa[0].Err, 60)
			return true
		}
		if afterFault > 0 || firedDeep {
			afterFault++
		}
		return check("statement "+fmt.Sprint(len(h.Steps))+" "+trunc(src, 60), oa, ob)
	}

	for _, d := range append(append([]string{}, BombSrc...), buildDefs(g, sw)...) {
		if both(d) {
			goto done
		}
	}
	for i := 0; i < sw.NStmts+2; i++ {
		// fault?
		if faultRate > 0 && tp.Draw(5-faultRate) == 0 {
			n := 1 + tp.Draw(2)*tp.Draw(2) // sometimes several in a row
			for j := 0; j < n; j++ {
				f := drawFault(tp, fresh)
				h.Steps = append(h.Steps, Step{Src: f.a, Fault: f.tag + " | twin B gets: " + f.b})
				key = key.Str(f.tag).Str(shapeOf(f.a))
				oa := A.Submit(f.a+"\n", sw.Repl)
				r.Statements++
				if rest("A after failing "+trunc(f.a, 40), A, oa) {
					goto done
				}
				last := oa[len(oa)-1]
				if last.Kind != sess.KError && last.Kind != sess.KParse {
					r.Violation = &core.Violation{Clause: "fault-did-not-fail", Detail: fmt.Sprintf("failing statement %q ended with %s", f.a, last.Brief()), History: h}
					goto done
				}
				r.Inc(f.tag, 1)
				if f.depth {
					firedDeep = true
					afterFault = 0
				}
				if f.b != "" {
					ob := B.Submit(f.b+"\n", sw.Repl)
					if rest("B after prefix "+trunc(f.b, 40), B, ob) {
						goto done
					}
					if ob[len(ob)-1].Kind != sess.KValue {
						r.Violation = &core.Violation{Clause: "twin-prefix-failed", Detail: fmt.Sprintf("completed prefix %q ended with %s", f.b, ob[len(ob)-1].Brief()), History: h}
						goto done
					}
				}
			}
		}
		lines := g.TopStmt(top)
		for _, l := range lines {
			if abortRate > 0 && tp.Draw(6-abortRate) == 0 {
				// F3: statement that writes its global last: gx = <pure call or expression>
				v := fresh()
				src := v + " = " + g.IntExpr(top, 2)
				k := 1 + tp.Draw(30)
				A.AbortAt = k
				oa := A.Submit(src+"\n", sw.Repl)
				A.AbortAt = 0
				r.Statements++
				if rest("A after abort "+trunc(src, 40), A, oa) {
					goto done
				}
				fired := oa[0].Kind == sess.KAbort
				st := Step{Src: src, Fault: fmt.Sprintf("F3:%d fired=%v", k, fired), Abort: k}
				h.Steps = append(h.Steps, st)
				key = key.Str("F3").Int(k).Str(shapeOf(src))
				if fired {
					r.Inc("F3.abort_fired", 1)
					if oa[0].Steps > 5 {
						firedDeep = true
						afterFault = 0
					}
				} else {
					// the statement completed in A (normally or with its own error): B must run it too
					ob := B.Submit(src+"\n", sw.Repl)
					if rest("B "+trunc(src, 40), B, ob) || check("statement (abort not reached) "+trunc(src, 60), oa, ob) {
						goto done
					}
				}
			}
			if both(l) {
				goto done
			}
		}
	}
done:
	mergeFeat(&r, g)
	mergeProbes(&r, A)
	r.NonTrivial = firedDeep && afterFault >= 2
	r.Key = uint64(key)
	r.Interleaving = uint64(trace)
	r.TraceHash = uint64(trace)
	r.Sample = h
	return r
}
