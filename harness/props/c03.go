package props

import (
	"encoding/json"
	"fmt"
	"strings"

	"verif/core"
	"verif/gen"
	"verif/sess"
	"verif/tape"
)

// C03: functions are pure: same arguments, same result, whatever happened before.
type C03 struct{}

func init() { core.Register(C03{}) }

func (C03) ID() string    { return "C03" }
func (C03) Level() string { return "exploration" }
func (C03) Runs(t core.Tier) int {
	if t == core.Thorough {
		return 1_200_000
	}
	return 50_000
}
func (C03) Rule() string {
	return "One run = one session that defines side-effect-free functions (free-form bodies with loops over generators, closures made, called and returned, generator closures from factories, bounded recursion) and then evaluates the SAME probe call in up to 10 placements: at top level, twice in one statement, under d wrapper frames (d around 0..7, 63/64, 127/128, 300) each with w padding locals (w around 0,1,127..130,255..257,300), inside a loop body at iteration j, as a yielded value, inside a generator consumed by a loop, and after history statements (deep recursion, wide calls, loops, failed statements, injected aborts). Globals are only added under fresh names. Oracle (real vs real): every rendering of the probe equals the first one. Non-trivial = at least two placements executed at different call depth or after the value stack was relocated / a context recycled. Distinct = hash of function shapes, probe, placements and padding."
}
func (C03) Assumptions() []string {
	return []string{
		"generated functions perform no I/O and never reassign a captured variable after the closure exists (known finding K3), never return closures inside arrays (known finding K4)",
		"equality is on toa() renderings, as the property's observe_at says",
	}
}
func (C03) RealComponents() []string { return C09{}.RealComponents() }
func (C03) StubComponents() []string { return C09{}.StubComponents() }

var c03Depths = []int{0, 1, 2, 3, 5, 6, 7, 15, 63, 64, 127, 128, 300}

// probe: lines that end by assigning the rendering to r.
type probe struct {
	lines []string
	desc  string
}

func drawProbe(g *gen.G) (probe, bool) {
	var pures, makers []gen.Def
	for _, d := range g.Defs {
		switch d.Kind {
		case gen.Pure, gen.ArrPure:
			pures = append(pures, d)
		case gen.Maker:
			makers = append(makers, d)
		}
	}
	if len(pures)+len(makers) == 0 {
		return probe{}, false
	}
	args := func(n int) string {
		a := make([]string, n)
		for i := range a {
			a[i] = fmt.Sprint(g.T.Draw(6))
			if g.T.Draw(8) == 0 { // an integral float: placements hold the same-valued int literal
				a[i] += ".0"
			}
		}
		return strings.Join(a, ", ")
	}
	if len(makers) > 0 && (len(pures) == 0 || g.T.Draw(3) == 0) {
		m := makers[g.T.Draw(len(makers))]
		call := m.Name + "(" + args(m.Arity) + ")"
		return probe{[]string{"t = " + call, "r = toa(t(" + fmt.Sprint(g.T.Draw(9)) + "))"}, "closure returned by " + call}, true
	}
	p := pures[g.T.Draw(len(pures))]
	call := p.Name + "(" + args(p.Arity) + ")"
	return probe{[]string{"r = toa(" + call + ")"}, call}, true
}

func (C03) Run(tp *tape.Tape) core.Result {
	var r core.Result
	sw := drawSwarm(tp)
	sw.NProc = 0
	if sw.NPure == 0 {
		sw.NPure = 1
	}
	g := newGen(tp, sw)
	repl := sw.Repl
	h := &Hist{Flavour: flavour(repl)}
	s := sess.New()
	s.TrackSP = true
	key := core.NewHash().Str(h.Flavour)
	trace := core.NewHash()
	nPlace := 0
	depthsSeen := map[int]bool{}
	var base *sess.Outcome
	baseDesc := ""

	submit := func(src string, abortAt int) (sess.Outcome, bool) {
		st := Step{Src: src}
		if abortAt > 0 {
			st.Fault = fmt.Sprintf("F3:%d", abortAt)
		}
		h.Steps = append(h.Steps, st)
		s.AbortAt = abortAt
		outs := s.Submit(src+"\n", repl)
		s.AbortAt = 0
		r.Statements++
		o := outs[len(outs)-1]
		for _, x := range outs {
			r.Instructions += x.Steps
			key = key.Int(int(x.Trace))
		}
		trace = trace.Str(o.Kind).Str(o.Val).Str(o.Out).Str(o.Err)
		if o.Kind == sess.KPanic {
			r.Violation = panicViolation("panic", o, h)
			return o, true
		}
		if o.Kind == sess.KParse {
			r.Discard = "generator produced unparsable text: " + trunc(o.Err, 60)
			return o, true
		}
		return o, false
	}
	observe := func(desc string, o sess.Outcome) bool {
		// the probe's rendering is what the placement wrote
		if o.Kind == sess.KBudget {
			r.Discard = "budget"
			return true
		}
		nPlace++
		if base == nil {
			b := o
			base = &b
			baseDesc = desc
			return false
		}
		if o.Kind != base.Kind || o.Out != base.Out || o.Err != base.Err {
			r.Violation = &core.Violation{Clause: "placement-differs",
				Detail:  fmt.Sprintf("probe gave %s in placement [%s] but %s in placement [%s]\n%s", base.Brief(), baseDesc, o.Brief(), desc, trunc(o.Report, 500)),
				History: h}
			return true
		}
		return false
	}

	for _, d := range buildDefs(g, sw) {
		key = key.Str(shapeOf(d))
		if o, stop := submit(d, 0); stop || o.Kind != sess.KValue {
			if !stop {
				r.Discard = "definition did not evaluate: " + o.Brief()
			}
			goto done
		}
	}
	if tp.Draw(3) == 2 {
		d := g.DefCondLocals()
		key = key.Str(shapeOf(d.Src))
		if o, stop := submit(d.Src, 0); stop || o.Kind != sess.KValue {
			if !stop {
				r.Discard = "definition did not evaluate: " + o.Brief()
			}
			goto done
		}
	}
	{
		pr, ok := drawProbe(g)
		if !ok {
			r.Discard = "no probe function"
			goto done
		}
		key = key.Str(pr.desc)
		body := func(extra ...string) []string { return append(append([]string{}, pr.lines...), extra...) }
		nfn := 0
		newName := func() string { nfn++; return "pl" + string(rune('a'+nfn-1)) }
		// placement 0: depth 1 function, fresh session state
		p0 := newName()
		if _, stop := submit(p0+" = () -> "+gen.Block(body("r")), 0); stop {
			goto done
		}
		o, stop := submit("write("+p0+"())", 0)
		if stop || observe("first call, call depth 1, fresh session", o) {
			goto done
		}
		depthsSeen[1] = true
		if tp.Draw(10) == 9 {
			// offset sweep, while the stack is still at its first allocation step: the probe is called
			// on top of padding frames of 2 and 3 slots at every stack offset from 2 to 299, in
			// ascending order, so that each allocation boundary is crossed for the first time by
			// every kind of push the probe makes (frame, operand, fork) at some offset
			for _, d := range []string{
				"swa = (k) -> if k == 0 {\n" + p0 + "()\n} else {\nswa(k - 1)\n}",
				"swb = (k, j) -> if j == 0 {\nswa(k)\n} else {\nswb(k, j - 1)\n}",
				"sweep = (lo, hi) -> {\nbad = []\nfirst = " + p0 + "()\no = lo\nwhile o < hi {\nif o % 2 == 0 {\nv = swb(o / 2, 0)\n} else {\nv = swb((o - 3) / 2, 1)\n}\nif v != first {\nbad = bad + [[o, v]]\n}\no = o + 1\n}\nbad\n}",
			} {
				if _, stop := submit(d, 0); stop {
					goto done
				}
			}
			for _, rg := range [][2]int{{4, 150}, {150, 300}} {
				o, stop := submit(fmt.Sprintf("write(sweep(%d, %d))", rg[0], rg[1]), 0)
				if stop {
					goto done
				}
				if o.Kind == sess.KBudget {
					break
				}
				r.Inc("place.offset_sweep", 1)
				if base.Kind == sess.KValue && (o.Kind != sess.KValue || o.Out != "[]") {
					r.Violation = &core.Violation{Clause: "placement-differs", Detail: fmt.Sprintf("offset sweep %d..%d: the probe gave %s at depth 1; list of [padding offset, result] that differ: %s\n%s", rg[0], rg[1], base.Brief(), o.Brief(), trunc(o.Report, 400)), History: h}
					goto done
				}
				if base.Kind != sess.KValue && o.Kind != base.Kind {
					r.Violation = &core.Violation{Clause: "placement-differs", Detail: fmt.Sprintf("offset sweep: the probe ended with %s at depth 1, the sweep with %s", base.Brief(), o.Brief()), History: h}
					goto done
				}
				depthsSeen[100] = true
			}
		}
		np := 2 + tp.Draw(8)
		for i := 0; i < np; i++ {
			// optional history statement before the placement
			switch tp.Draw(9) {
			case 1:
				d := []int{50, 200, 1000, 5000}[tp.Draw(4)]
				if _, stop := submit(fmt.Sprintf("deep(%d)", d), 0); stop {
					goto done
				}
				r.Inc("F8.history_deep_recursion", 1)
			case 2:
				if _, stop := submit("for hx <- fromto(0, 4) {\nfor hy <- fromto(0, 2) {\nhz = hx + hy\n}\n}", 0); stop {
					goto done
				}
				r.Inc("F8.history_loops", 1)
			case 3:
				if _, stop := submit("1 / 0", 0); stop {
					goto done
				}
				r.Inc("F1.history_runtime_error", 1)
			case 4:
				h.Steps = append(h.Steps, Step{Src: "1 +)", Fault: "F2"})
				if po := s.Submit("1 +)\n", repl); po[0].Kind != sess.KParse {
					r.Violation = &core.Violation{Clause: "garbage-accepted", Detail: po[0].Brief(), History: h}
					goto done
				}
				r.Inc("F2.history_garbage", 1)
			case 5:
				k := 1 + tp.Draw(25)
				o, stop := submit("write("+p0+"())", k)
				if stop {
					goto done
				}
				if o.Kind == sess.KAbort {
					r.Inc("F3.history_abort_fired", 1)
				} else if observe("re-run with an abort armed that was not reached", o) {
					goto done
				}
			}
			desc := ""
			var call string
			switch tp.Draw(11) {
			case 0: // same call again at depth 1
				call, desc = "write("+p0+"())", "again, call depth 1"
				depthsSeen[1] = true
			case 1: // twice in one statement
				o, stop := submit("write(["+p0+"(), "+p0+"()])", 0)
				if stop {
					goto done
				}
				if o.Kind == sess.KValue && base.Kind == sess.KValue {
					o.Out = strings.TrimSuffix(strings.TrimPrefix(o.Out, "["), "]")
					parts := strings.SplitN(o.Out, ", ", 2)
					if len(parts) != 2 || parts[0] != base.Out || parts[1] != base.Out {
						// the rendering itself may contain ", ": compare against the doubled baseline
						if o.Out != base.Out+", "+base.Out {
							r.Violation = &core.Violation{Clause: "placement-differs", Detail: fmt.Sprintf("[p(), p()] printed [%s], a single call printed %s", o.Out, base.Out), History: h}
							goto done
						}
					}
					nPlace++
				} else if o.Kind != base.Kind && o.Kind != sess.KBudget {
					r.Violation = &core.Violation{Clause: "placement-differs", Detail: fmt.Sprintf("[p(), p()] ended with %s, a single call with %s", o.Brief(), base.Brief()), History: h}
					goto done
				}
				r.Inc("place.twice_in_one_statement", 1)
				continue
			case 2, 3: // under d frames with w padding locals
				d := c03Depths[tp.Draw(len(c03Depths))]
				w := 0
				if tp.Bool() {
					w = drawWidth(tp)
				}
				var defs []string
				inner := p0 + "()"
				if w > 0 {
					defs, inner = g.Wrapper(inner, 1, w)
				}
				if d > 0 {
					def, c := g.DeepCall(inner, d)
					defs = append(defs, def)
					inner = c
				}
				for _, df := range defs {
					if _, stop := submit(df, 0); stop {
						goto done
					}
				}
				call, desc = "write("+inner+")", fmt.Sprintf("under %d extra frames, %d padding locals", d, w)
				depthsSeen[1+d] = true
				r.Inc("place.padded_depth", 1)
			case 4: // inside a loop body at iteration j
				j := 1 + tp.Draw(5)
				n := newName()
				if _, stop := submit(n+" = () -> "+gen.Block(append([]string{"r = \"\"", fmt.Sprintf("for i <- fromto(0, %d) %s", j, gen.Block(pr.lines))}, "r")), 0); stop {
					goto done
				}
				call, desc = "write("+n+"())", fmt.Sprintf("in a loop body, last of %d iterations", j)
				r.Inc("place.loop_body", 1)
			case 5: // as a yielded value (generator resumed before)
				n := newName()
				gl := []string{"yield \"first\""}
				gl = append(gl, pr.lines...)
				gl = append(gl, "yield r")
				if _, stop := submit(n+"g = () -> "+gen.Block(gl), 0); stop {
					goto done
				}
				if _, stop := submit(n+" = () -> {\nq = \"\"\nfor e <- "+n+"g() {\nq = e\n}\nq\n}", 0); stop {
					goto done
				}
				call, desc = "write("+n+"())", "computed inside a resumed generator and yielded"
				r.Inc("place.yielded_value", 1)
			case 9, 10: // work between creating a closure and calling it (probes that bind a closure first)
				if len(pr.lines) != 2 {
					continue
				}
				mid := []string{
					"for ma <- fromto(0, 3) {\nmb = ma\n}",
					"for ma, mb <- fromto(0, 4), fromto(7, 9) {\nmc = ma + mb\n}",
					"md = deep(200)",
					"for ma <- fromto(0, 2) {\nfor mb <- fromto(0, 2) {\nmc = ma * mb\n}\n}",
					"me = 0\nfor ma <- fromto(0, 3) {\nme = me + deep(ma)\n}",
					// a second closure from the same maker, used first
					strings.Replace(pr.lines[0], "t = ", "mq = ", 1) + "\nmr = toa(mq(3))\nms = toa(mq(4))",
				}[tp.Draw(6)]
				n := newName()
				if _, stop := submit(n+" = () -> "+gen.Block([]string{pr.lines[0], mid, pr.lines[1], "r"}), 0); stop {
					goto done
				}
				g.NeedDeep = true
				call, desc = "write("+n+"())", "with other loops and calls between creating the closure and calling it"
				r.Inc("place.work_between_closure_creation_and_call", 1)
			case 7: // after a small loop in the same statement (a context to recycle)
				call = "{\nfor hq <- fromto(0, 2) {\nhs = hq\n}\nwrite(" + p0 + "())\n}"
				desc = "after a small loop in the same statement"
				r.Inc("place.after_small_loop_same_statement", 1)
			case 6: // in a loop body whose generator made calls, at top level
				call = "{\nfor hq <- fromto(0, 2) {\nhr = " + p0 + "()\n}\nwrite(hr)\n}"
				desc = "in a top-level loop body"
				r.Inc("place.toplevel_loop_body", 1)
			default: // zip of generators around the call
				n := newName()
				if _, stop := submit(n+" = () -> {\nq = \"\"\nfor a, b <- fromto(0, 3), fromto(5, 7) {\nq = "+p0+"()\n}\nq\n}", 0); stop {
					goto done
				}
				call, desc = "write("+n+"())", "in the body of a two-iterator loop"
				r.Inc("place.zip_body", 1)
			}
			key = key.Str(desc)
			o, stop := submit(call, 0)
			if stop || observe(desc, o) {
				goto done
			}
		}
	}
done:
	mergeFeat(&r, g)
	mergeProbes(&r, s)
	r.NonTrivial = nPlace >= 2 && (len(depthsSeen) >= 2 || s.Probes["probe.stack_relocated"] > 0 || s.Probes["probe.fork_reused_recycled_context"] > 0)
	r.Key = uint64(key)
	r.Interleaving = uint64(trace)
	r.TraceHash = uint64(trace)
	r.Sample = h
	return r
}

// RunScript: every step that starts with "write(" is a placement of the probe; all must print the same.
func (C03) RunScript(raw json.RawMessage) core.Result {
	var r core.Result
	sc, h, err := parseScript(raw)
	if err != nil {
		r.Discard = err.Error()
		return r
	}
	s := sess.New()
	var base *sess.Outcome
	for i, src := range sc.Steps {
		outs := s.Submit(src+"\n", sc.Flavour == "repl")
		o := outs[len(outs)-1]
		if o.Kind == sess.KPanic {
			r.Violation = panicViolation("panic", o, h)
			return r
		}
		if !strings.HasPrefix(src, "write(") {
			continue
		}
		if base == nil {
			b := o
			base = &b
			continue
		}
		if o.Kind != base.Kind || o.Out != base.Out || o.Err != base.Err {
			r.Violation = &core.Violation{Clause: "placement-differs", Detail: fmt.Sprintf("step %d gave %s, the first placement gave %s", i+1, o.Brief(), base.Brief()), History: h}
			return r
		}
	}
	return r
}
