// Package gen generates calc programs inside the documented fragment
// (DESIGN.md 5.3): every choice comes from the tape and 0 is always the
// simplest alternative.
//
// Naming discipline (calc names are [a-z]+): locals and parameters are single
// letters, padding locals are "v"+letters, global int variables "g"+letter,
// top-level loop variables "l"+letter, pure functions "fn"+letters,
// generators "gn"+letters, wrappers "wr"+letters. Nothing collides with a
// keyword, a built-in or a prelude name, so nothing is ever shadowed.
package gen

import (
	"fmt"
	"strings"

	"verif/tape"
)

// Kind of a generated global function.
type Kind int

const (
	Pure    Kind = iota // int-valued, no I/O, int parameters
	Proc                // arbitrary tail statement; only called for effect
	Gen                 // yields ints; int parameters
	Maker               // returns a closure of one int argument
	ArrPure             // pure, returns an array (may hold nil); never used inside generated expressions
)

// Def is one global function definition (a complete top-level statement).
type Def struct {
	Name  string
	Src   string
	Kind  Kind
	Arity int
	Feat  []string // features for coverage accounting
}

// G is a generation context for one session.
type G struct {
	T    *tape.Tape
	Defs []Def
	// Log makes generators and loop bodies emit write() events (C02).
	Log bool
	// NoClosures forbids closures (for workloads that want to stay clear of K3/K4 shapes entirely).
	NoClosures bool
	// NoCompose forbids map/filter/take/chain/zip compositions (prelude not loaded).
	NoCompose bool
	// MaxIter bounds loop iteration counts.
	MaxIter int
	// Pre holds helper definitions that must be submitted before the next definition.
	Pre []string
	// NeedDeep is set when a generated body calls the prelude's deep().
	NeedDeep      bool
	nFn, nGn, nWr int
	Feat          map[string]int
	evt           int
}

// New returns a generator.
func New(t *tape.Tape) *G {
	return &G{T: t, MaxIter: 6, Feat: map[string]int{}}
}

func letters(n int) string {
	s := ""
	for {
		s = string(rune('a'+n%26)) + s
		n = n/26 - 1
		if n < 0 {
			break
		}
	}
	return s
}

// PadName is the i-th padding local.
func PadName(i int) string { return "v" + letters(i+26) } // at least two letters after v: vaa, vab...

func (g *G) feat(f string) { g.Feat[f]++ }

// ---------------------------------------------------------------- prelude

// PosSrc is a bool-valued helper that is always loaded next to deep: conditions built from calls
// and from indexing leave their operands on the operand stack instead of in the temp register.
const PosSrc = "pos = (n) -> n > 0"

// Prelude definitions (documented combinators from the Readme plus helpers).
var PreludeSrc = []string{
	"deep = (n) -> if n <= 0 0 else 1 + deep(n - 1)",
	"map = (f, it) -> for e <- it() yield f(e)",
	"filter = (p, it) -> for e <- it() if p(e) yield e",
	"take = (n, it) -> {\n i = 0\n for e <- it() {\n  if i >= n return 0\n  yield e\n  i = i + 1\n }\n}",
	"chain = (a, b) -> {\n for e <- a() yield e\n for e <- b() yield e\n}",
	"zip = (a, b) -> for x, y <- a(), b() yield x * 1000 + y",
	"sum = (it) -> {\n s = 0\n for e <- it() s = s + e\n s\n}",
	"count = (it) -> {\n c = 0\n for e <- it() c = c + 1\n c\n}",
	"collect = (it) -> {\n r = []\n for e <- it() r = r + [e]\n r\n}",
	"nat = () -> {\n i = 0\n while true {\n  yield i\n  i = i + 1\n }\n}",
}

// ---------------------------------------------------------------- scopes

type scope struct {
	params []string // immutable ints
	consts []string // assigned once, immutable ints (capturable)
	muts   []string // mutable int locals
	arrs   []string // int-array locals
	funs   []string // local closure values of arity 1 (int -> int)
	inGen  bool     // yields allowed
	inFunc bool
	self   string // name of the function being defined (for bounded recursion), "" if none
	depth  int    // statement nesting depth
	used   map[string]bool
	top    bool // top-level scope: variables are globals
	canRet bool // return statements allowed (functions, and top level when requested)
	g      *G
}

func (s *scope) child() *scope {
	c := *s
	c.params = append([]string(nil), s.params...)
	c.consts = append([]string(nil), s.consts...)
	c.muts = append([]string(nil), s.muts...)
	c.arrs = append([]string(nil), s.arrs...)
	c.funs = append([]string(nil), s.funs...)
	c.depth = s.depth + 1
	return &c
}

func (s *scope) fresh() string {
	if s.top {
		for i := 0; i < 26; i++ {
			n := "g" + string(rune('a'+i))
			if !s.used[n] {
				s.used[n] = true
				return n
			}
		}
		for i := 0; ; i++ {
			n := "g" + letters(26+i)
			if !s.used[n] {
				s.used[n] = true
				return n
			}
		}
	}
	for i := 0; i < 26; i++ {
		n := string(rune('a' + i))
		if n == "v" || s.used[n] {
			continue
		}
		s.used[n] = true
		return n
	}
	for i := 0; ; i++ {
		n := "u" + letters(26+i)
		if !s.used[n] {
			s.used[n] = true
			return n
		}
	}
}

func (s *scope) intVars() []string {
	r := append([]string(nil), s.params...)
	r = append(r, s.consts...)
	r = append(r, s.muts...)
	return r
}

// ---------------------------------------------------------------- expressions

func (g *G) lit() string { return fmt.Sprint(g.T.Draw(10)) }

func (g *G) atom(s *scope) string {
	vs := s.intVars()
	if len(vs) > 0 && g.T.Draw(3) > 0 {
		return vs[g.T.Draw(len(vs))]
	}
	return g.lit()
}

// defsOf lists definitions of a kind (optionally excluding self).
func (g *G) defsOf(k Kind) []Def {
	var r []Def
	for _, d := range g.Defs {
		if d.Kind == k {
			r = append(r, d)
		}
	}
	return r
}

func (g *G) smallArg(s *scope) string {
	// arguments stay small so that loops and recursion stay short
	switch g.T.Draw(4) {
	case 0:
		return fmt.Sprint(g.T.Draw(5))
	case 1:
		if len(s.params) > 0 {
			return s.params[g.T.Draw(len(s.params))]
		}
		return fmt.Sprint(g.T.Draw(5))
	case 2:
		return fmt.Sprint(1 + g.T.Draw(g.MaxIter))
	default:
		if len(s.consts) > 0 {
			return s.consts[g.T.Draw(len(s.consts))]
		}
		return fmt.Sprint(g.T.Draw(4))
	}
}

func (g *G) callOf(d Def, s *scope) string {
	args := make([]string, d.Arity)
	for i := range args {
		args[i] = g.smallArg(s)
	}
	return d.Name + "(" + strings.Join(args, ", ") + ")"
}

// IntExpr generates an int-valued expression of bounded depth.
func (g *G) IntExpr(s *scope, d int) string {
	if d <= 0 {
		return g.atom(s)
	}
	switch g.T.Draw(9) {
	case 0:
		return g.atom(s)
	case 1, 2:
		op := []string{"+", "-", "*"}[g.T.Draw(3)]
		return "(" + g.IntExpr(s, d-1) + " " + op + " " + g.IntExpr(s, d-1) + ")"
	case 3:
		ps := g.defsOf(Pure)
		if len(ps) > 0 {
			g.feat("expr.call")
			return g.callOf(ps[g.T.Draw(len(ps))], s)
		}
		return g.atom(s)
	case 4:
		if len(s.funs) > 0 {
			g.feat("expr.closure_call")
			return s.funs[g.T.Draw(len(s.funs))] + "(" + g.atom(s) + ")"
		}
		return g.atom(s)
	case 5:
		if len(s.arrs) > 0 {
			g.feat("expr.len")
			return "#" + s.arrs[g.T.Draw(len(s.arrs))]
		}
		return g.atom(s)
	case 6:
		return "(" + g.IntExpr(s, d-1) + " / " + fmt.Sprint(1+g.T.Draw(4)) + ")"
	case 7:
		return "(" + g.IntExpr(s, d-1) + " % " + fmt.Sprint(2+g.T.Draw(4)) + ")"
	default:
		return "-" + g.atom(s)
	}
}

// BoolExpr generates a bool-valued expression.
func (g *G) BoolExpr(s *scope, d int) string {
	if d > 0 && g.T.Draw(6) == 0 {
		// && / || whose operands are call results, indexed values or contain calls: whichever side
		// decides, both operands have been evaluated and both must leave the stack
		op := []string{"&&", "||"}[g.T.Draw(2)]
		operand := func() string {
			switch g.T.Draw(4) {
			case 0:
				return "pos(" + g.IntExpr(s, 1) + ")"
			case 1:
				return "[true, false, true][" + fmt.Sprint(g.T.Draw(3)) + "]"
			case 2:
				return g.atom(s) + " < deep(" + fmt.Sprint(g.T.Draw(4)) + ")"
			default:
				return []string{"true", "false"}[g.T.Draw(2)]
			}
		}
		g.feat("expr.bool_op_on_stack_operands")
		g.NeedDeep = true
		return operand() + " " + op + " " + operand()
	}
	switch g.T.Draw(6) {
	case 0, 1, 2:
		op := []string{"<", "<=", "==", "!=", ">", ">="}[g.T.Draw(6)]
		return g.IntExpr(s, d-1) + " " + op + " " + g.IntExpr(s, d-1)
	case 3:
		return "!(" + g.BoolExpr(s, d-1) + ")"
	case 4:
		if d > 0 {
			op := []string{"&&", "||"}[g.T.Draw(2)]
			return "(" + g.BoolExpr(s, d-1) + ") " + op + " (" + g.BoolExpr(s, d-1) + ")"
		}
		fallthrough
	default:
		return g.atom(s) + " < " + g.atom(s)
	}
}

// ---------------------------------------------------------------- statements

func block(stmts []string) string {
	if len(stmts) == 0 {
		return "{\n0\n}"
	}
	return "{\n" + strings.Join(stmts, "\n") + "\n}"
}

func indent(s string) string { return s }

// iterExpr returns an iterator expression yielding ints, and a feature tag.
func (g *G) iterExpr(s *scope) string {
	gens := g.defsOf(Gen)
	n := g.T.Draw(8)
	if n == 7 && g.T.Draw(4) == 0 {
		// an iterator expression that is a plain value: it yields nothing, so the loop runs zero times
		g.feat("iter.no_call")
		if len(s.arrs) > 0 && g.T.Bool() {
			return s.arrs[g.T.Draw(len(s.arrs))]
		}
		return g.atom(s)
	}
	switch {
	case n <= 1 || (len(gens) == 0 && n <= 4):
		g.feat("iter.fromto")
		return "fromto(" + fmt.Sprint(g.T.Draw(3)) + ", " + g.smallArg(s) + ")"
	case n == 2 && len(s.arrs) > 0:
		g.feat("iter.elems")
		return "elems(" + s.arrs[g.T.Draw(len(s.arrs))] + ")"
	case n == 3 && len(s.arrs) > 0:
		g.feat("iter.indices")
		return "indices(" + s.arrs[g.T.Draw(len(s.arrs))] + ")"
	case n <= 5 && len(gens) > 0:
		g.feat("iter.gen")
		return g.callOf(gens[g.T.Draw(len(gens))], s)
	case n == 6 && len(gens) > 0 && !g.NoCompose:
		g.feat("iter.composed")
		return g.composed(s, 1+g.T.Draw(3))
	default:
		g.feat("iter.fromto")
		return "fromto(0, " + g.smallArg(s) + ")"
	}
}

// thunk wraps an iterator expression as a zero-argument function literal.
func thunk(e string) string { return "() -> " + e }

// composed builds map/filter/take/chain/zip compositions to the given depth.
func (g *G) composed(s *scope, depth int) string {
	base := func() string {
		gens := g.defsOf(Gen)
		if len(gens) > 0 && g.T.Draw(3) > 0 {
			return g.callOf(gens[g.T.Draw(len(gens))], s)
		}
		return "fromto(" + fmt.Sprint(g.T.Draw(3)) + ", " + fmt.Sprint(1+g.T.Draw(g.MaxIter)) + ")"
	}
	if depth <= 0 {
		return base()
	}
	inner := g.composed(s, depth-1)
	switch g.T.Draw(6) {
	case 0:
		g.feat("compose.map")
		return "map((x) -> x * " + fmt.Sprint(1+g.T.Draw(4)) + " + " + g.lit() + ", " + thunk(inner) + ")"
	case 1:
		g.feat("compose.filter")
		return "filter((x) -> x % " + fmt.Sprint(2+g.T.Draw(3)) + " != " + fmt.Sprint(g.T.Draw(2)) + ", " + thunk(inner) + ")"
	case 2:
		g.feat("compose.take")
		return "take(" + fmt.Sprint(1+g.T.Draw(g.MaxIter)) + ", " + thunk(inner) + ")"
	case 3:
		g.feat("compose.chain")
		return "chain(" + thunk(inner) + ", " + thunk(base()) + ")"
	case 4:
		g.feat("compose.zip")
		return "zip(" + thunk(inner) + ", " + thunk(base()) + ")"
	default:
		g.feat("compose.take_nat")
		return "take(" + fmt.Sprint(1+g.T.Draw(g.MaxIter)) + ", " + thunk("map((x) -> x + "+g.lit()+", nat)") + ")"
	}
}

func (g *G) event(tag string, vals ...string) string {
	// write("<tag><id>:" + toa(v) + ";")
	g.evt++
	s := "write(\"" + tag + fmt.Sprint(g.evt) + ":\""
	for i, v := range vals {
		if i > 0 {
			s += " + \",\""
		}
		s += " + toa(" + v + ")"
	}
	return s + " + \";\")"
}

// Stmts generates n statements for a body; tailValue requests an int-valued last statement.
func (g *G) Stmts(s *scope, n int, tailValue bool) []string {
	var out []string
	for i := 0; i < n; i++ {
		out = append(out, g.stmt(s, false)...)
	}
	if tailValue {
		out = append(out, g.tail(s))
	} else if len(out) > 0 && strings.HasPrefix(out[len(out)-1], "if ") && strings.Contains(out[len(out)-1], "return ") {
		out = append(out, g.lit()) // a body never ends in a bare conditional return (DESIGN 5.3)
	}
	return out
}

// tail is an int-valued last statement of a function body.
func (g *G) tail(s *scope) string {
	switch g.T.Draw(5) {
	case 0, 1:
		return g.IntExpr(s, 2)
	case 2:
		g.feat("tail.ifelse")
		return "if " + g.BoolExpr(s, 1) + " " + block([]string{g.IntExpr(s, 1)}) + " else " + block([]string{g.IntExpr(s, 1)})
	case 3:
		if s.canRet {
			g.feat("tail.return")
			return "return " + g.IntExpr(s, 1)
		}
		return g.IntExpr(s, 1)
	default:
		if len(s.muts) > 0 {
			v := s.muts[g.T.Draw(len(s.muts))]
			g.feat("tail.assign")
			return v + " = " + g.IntExpr(s, 1)
		}
		return g.IntExpr(s, 1)
	}
}

// stmt generates one (possibly compound) statement in discarded position; it may
// return several lines when it needs a preparatory assignment.
func (g *G) stmt(s *scope, inLoop bool) []string {
	max := 12
	if s.depth >= 3 {
		max = 3
	}
	switch g.T.Draw(max) {
	case 0: // new mutable local
		v := s.fresh()
		e := g.IntExpr(s, 2)
		s.muts = append(s.muts, v)
		return []string{v + " = " + e}
	case 1: // reassign
		if len(s.muts) > 0 {
			v := s.muts[g.T.Draw(len(s.muts))]
			switch g.T.Draw(4) {
			case 0:
				g.feat("stmt.inc")
				return []string{v + " = " + v + " + 1"}
			case 1:
				g.feat("stmt.inc_rev")
				return []string{v + " = 1 + " + v}
			}
			return []string{v + " = " + g.IntExpr(s, 2)}
		}
		v := s.fresh()
		e := g.IntExpr(s, 1)
		s.muts = append(s.muts, v)
		return []string{v + " = " + e}
	case 2: // expression statement (discarded value)
		g.feat("stmt.expr")
		return []string{g.IntExpr(s, 2)}
	case 3: // if without else
		g.feat("stmt.if")
		c := s.child()
		body := g.Stmts(c, 1+g.T.Draw(2), false)
		if g.T.Draw(3) == 0 {
			// single-statement body that is a constant or expression (the discarded-if shape)
			return []string{"if " + g.BoolExpr(s, 1) + " " + block([]string{g.IntExpr(s, 1)})}
		}
		return []string{"if " + g.BoolExpr(s, 1) + " " + block(body)}
	case 4: // if else
		g.feat("stmt.ifelse")
		c1, c2 := s.child(), s.child()
		return []string{"if " + g.BoolExpr(s, 1) + " " + block(g.Stmts(c1, 1+g.T.Draw(2), false)) +
			" else " + block(g.Stmts(c2, 1+g.T.Draw(2), false))}
	case 5: // while with a fresh bounded counter
		g.feat("stmt.while")
		i := s.fresh()
		c := s.child()
		c.consts = append(c.consts, i) // readable, not assignable by nested statements
		body := g.Stmts(c, 1+g.T.Draw(2), false)
		if g.Log {
			body = append([]string{g.event("w", i)}, body...)
		}
		body = append(body, i+" = "+i+" + 1")
		lim := fmt.Sprint(g.T.Draw(g.MaxIter + 1))
		return []string{i + " = 0", "while " + i + " < " + lim + " " + block(body)}
	case 6, 7: // for loop
		return g.forStmt(s, false)
	case 8: // array build
		g.feat("stmt.array")
		a := s.fresh()
		s.arrs = append(s.arrs, a)
		n := g.T.Draw(4)
		el := make([]string, n)
		for i := range el {
			el[i] = g.atom(s)
		}
		lines := []string{a + " = [" + strings.Join(el, ", ") + "]"}
		if g.T.Bool() {
			lines = append(lines, a+" = "+a+" + ["+g.atom(s)+"]")
		}
		return lines
	case 9: // closure
		if g.NoClosures || !s.inFunc || len(s.params)+len(s.consts) == 0 {
			return []string{g.IntExpr(s, 2)}
		}
		g.feat("stmt.closure")
		h := s.fresh()
		caps := append(append([]string(nil), s.params...), s.consts...)
		k := caps[g.T.Draw(len(caps))]
		body := "x + " + k
		if g.T.Bool() {
			body = "x * " + k + " - " + caps[g.T.Draw(len(caps))]
		}
		s.funs = append(s.funs, h)
		return []string{h + " = (x) -> " + body}
	case 10: // yield (generators) or early return (functions, inside conditionals only)
		if s.top && !s.inGen && g.T.Draw(2) == 0 {
			// a yield with no loop waiting for it (main context): it only evaluates to its operand
			g.feat("stmt.naked_yield_at_top_level")
			return []string{"yield " + g.IntExpr(s, 1)}
		}
		if s.inGen {
			g.feat("stmt.yield")
			e := g.IntExpr(s, 1)
			if g.Log {
				t := s.fresh()
				s.consts = append(s.consts, t)
				return []string{t + " = " + e, g.event("y", t), "yield " + t, g.event("r", t)}
			}
			return []string{"yield " + e}
		}
		if s.canRet && s.depth > 0 {
			g.feat("stmt.cond_return")
			return []string{"if " + g.BoolExpr(s, 1) + " " + block([]string{"return " + g.IntExpr(s, 1)})}
		}
		return []string{g.IntExpr(s, 1)}
	default: // call for effect
		if gs := g.defsOf(Gen); len(gs) > 0 && g.T.Draw(4) == 0 {
			g.feat("stmt.naked_generator_call")
			return []string{g.callOf(gs[g.T.Draw(len(gs))], s)}
		}
		ps := g.defsOf(Proc)
		if len(ps) > 0 {
			g.feat("stmt.proc_call")
			return []string{g.callOf(ps[g.T.Draw(len(ps))], s)}
		}
		pu := g.defsOf(Pure)
		if len(pu) > 0 {
			return []string{g.callOf(pu[g.T.Draw(len(pu))], s)}
		}
		return []string{g.IntExpr(s, 1)}
	}
}

// forStmt generates a for loop (1-3 iterators), with optional early return.
func (g *G) forStmt(s *scope, _ bool) []string {
	k := 1
	if g.T.Draw(4) == 0 {
		k = 2 + g.T.Draw(2)
		g.feat("for.zip")
	}
	c := s.child()
	vars := make([]string, k)
	iters := make([]string, k)
	for i := 0; i < k; i++ {
		iters[i] = g.iterExpr(s)
	}
	for i := 0; i < k; i++ {
		vars[i] = s.fresh()
		c.used = s.used
		c.consts = append(c.consts, vars[i])
	}
	var body []string
	if g.Log {
		body = append(body, g.event("b", vars...))
	}
	nb := 1 + g.T.Draw(2)
	body = append(body, g.Stmts(c, nb, false)...)
	if (s.inGen && g.T.Draw(3) == 0) || (s.top && !s.inGen && g.T.Draw(5) == 0) {
		g.feat("for.yield_in_body")
		body = append(body, "yield "+vars[0]+" + "+g.lit())
	}
	if s.canRet && g.T.Draw(4) == 0 {
		g.feat("for.return_in_body")
		body = append(body, "if "+vars[0]+" >= "+fmt.Sprint(g.T.Draw(4))+" "+block([]string{"return " + g.IntExpr(c, 1)}))
	}
	if len(s.muts) > 0 && g.T.Bool() {
		v := s.muts[g.T.Draw(len(s.muts))]
		body = append(body, v+" = "+v+" + "+vars[0])
	}
	if g.Log {
		body = append(body, g.event("e", vars[0]))
	}
	g.feat("stmt.for")
	if s.depth > 0 {
		g.feat("for.nested")
	}
	return []string{"for " + strings.Join(vars, ", ") + " <- " + strings.Join(iters, ", ") + " " + block(body)}
}

// ---------------------------------------------------------------- definitions

func paramNames(n int) []string {
	ps := make([]string, n)
	for i := range ps {
		ps[i] = string(rune('n' + i)) // n, o, p, q
	}
	return ps
}

func (g *G) newScope(params []string, inGen bool) *scope {
	s := &scope{params: params, inGen: inGen, inFunc: true, canRet: true, used: map[string]bool{"x": true, "y": true, "e": true}, g: g}
	for _, p := range params {
		s.used[p] = true
	}
	return s
}

// Scope is an opaque generation scope.
type Scope = scope

// TopScope is a scope for top-level statements (variables are globals).
func (g *G) TopScope(allowReturn bool) *Scope {
	return &scope{top: true, canRet: allowReturn, used: map[string]bool{}, g: g}
}

// EmptyFuncScope is a function scope with no visible variables (bodies generated in
// it recompute everything from literals).
func (g *G) EmptyFuncScope(reserved ...string) *Scope {
	s := g.newScope(nil, false)
	for _, r := range reserved {
		s.used[r] = true
	}
	return s
}

// TopStmt generates one top-level statement (possibly with preparatory lines, each its own statement).
func (g *G) TopStmt(s *Scope) []string { return g.stmt(s, false) }

// BodyStmts generates n statements in scope s.
func (g *G) BodyStmts(s *Scope, n int) []string { return g.Stmts(s, n, false) }

// Block renders statements as a braced block.
func Block(stmts []string) string { return block(stmts) }

// DefPure adds a new pure int function built from free-form statements or a template.
func (g *G) DefPure() Def {
	name := "fn" + letters(g.nFn)
	g.nFn++
	ar := g.T.Draw(3)
	if ar == 0 && g.T.Bool() {
		ar = 1
	}
	ps := paramNames(ar)
	s := g.newScope(ps, false)
	var src string
	var feats []string
	switch t := g.T.Draw(10); {
	case t == 1 && ar >= 1: // bounded recursion
		feats = append(feats, "def.recursive")
		src = fmt.Sprintf("%s = (%s) -> if %s <= 0 {\n%s\n} else {\n%s + %s(%s - 1%s)\n}", name, strings.Join(ps, ", "), ps[0], g.lit(), g.atom(s), name, ps[0], restArgs(ps))
	case t == 2: // closure maker + caller
		if g.NoClosures {
			src = name + " = (" + strings.Join(ps, ", ") + ") -> " + g.IntExpr(s, 2)
			break
		}
		feats = append(feats, "def.closure")
		k := s.fresh()
		s.consts = append(s.consts, k)
		lines := []string{k + " = " + g.IntExpr(s, 1), "h = (x) -> x + " + k}
		s.used["h"] = true
		s.funs = append(s.funs, "h")
		lines = append(lines, g.Stmts(s, g.T.Draw(3), true)...)
		src = name + " = (" + strings.Join(ps, ", ") + ") -> " + block(lines)
	case t == 3 && !g.NoClosures: // generator closure made by a factory, consumed by a loop whose body makes calls
		feats = append(feats, "def.closure_generator")
		mk := "gm" + letters(g.nGn)
		g.nGn++
		step := g.lit()
		g.Pre = append(g.Pre, mk+" = (b) -> () -> {\nyield b\nyield b + "+step+"\nyield b * 2\n}")
		arg := g.lit()
		if ar > 0 {
			arg = ps[0]
		}
		s.used["t"], s.used["s"] = true, true
		lines := []string{"t = " + mk + "(" + arg + ")", "s = 0"}
		body := "s = s * 10 + e"
		switch g.T.Draw(3) {
		case 1:
			body = "s = s * 10 + e + deep(" + fmt.Sprint(g.T.Draw(4)) + ")"
			g.NeedDeep = true
		case 2:
			lines = append(lines, "h = (x) -> x + "+arg)
			s.used["h"] = true
			body = "s = s * 10 + h(e)"
		}
		lines = append(lines, "for e <- t() {\n"+body+"\n}", "s")
		src = name + " = (" + strings.Join(ps, ", ") + ") -> " + block(lines)
	case t == 9: // many iterator contexts alive at once in one function: a wide zip and nested zips
		feats = append(feats, "def.many_iterators")
		g.feat("def.many_iterators")
		k := []int{4, 8, 9, 10, 17}[g.T.Draw(5)]
		vars := make([]string, k)
		its := make([]string, k)
		terms := make([]string, k)
		for i := 0; i < k; i++ {
			vars[i] = "w" + letters(i)
			its[i] = fmt.Sprintf("fromto(%d, %d)", i, i+3)
			terms[i] = fmt.Sprintf("%s * %d", vars[i], i+1)
		}
		s.used["s"] = true
		lines := []string{"s = 0", "for " + strings.Join(vars, ", ") + " <- " + strings.Join(its, ", ") + " {\ns = s + " + strings.Join(terms, " + ") + "\n}"}
		if g.T.Bool() { // and nested: 3 x 3 x 3 iterators inside one another
			lines = append(lines, "for a, b, c <- fromto(0, 2), fromto(1, 3), fromto(2, 4) {\nfor d, e, f <- fromto(0, 2), fromto(3, 5), fromto(5, 7) {\nfor h, i, j <- fromto(0, 2), fromto(7, 9), fromto(9, 11) {\ns = s + a + b * 2 + c * 3 + d * 5 + e * 7 + f * 11 + h * 13 + i * 17 + j * 19\n}\n}\n}")
		}
		lines = append(lines, "s")
		src = name + " = (" + strings.Join(ps, ", ") + ") -> " + block(lines)
	case t == 8 && ar >= 1: // a burst of operand pushes inside the frame, then assignments, a call and a forked loop that read them
		feats = append(feats, "def.push_burst")
		nb := []int{6, 12, 24, 40}[g.T.Draw(4)]
		el := make([]string, nb)
		for i := range el {
			el[i] = fmt.Sprintf("%s + %d", ps[0], i)
		}
		s.used["a"], s.used["k"], s.used["z"], s.used["s"], s.used["i"] = true, true, true, true, true
		lines := []string{"a = [" + strings.Join(el, ", ") + "]", "k = #a + " + ps[0], "z = deep(2)", "s = 0",
			"for i <- fromto(0, 3) {\ns = s + k\n}", "k * 100 + s + z"}
		g.NeedDeep = true
		src = name + " = (" + strings.Join(ps, ", ") + ") -> " + block(lines)
	case t == 5: // wide frame whose loop iterator reads its last local
		feats = append(feats, "def.wide")
		w := []int{3, 100, 127, 128, 129, 130, 200, 256, 300}[g.T.Draw(9)]
		var lines []string
		for i := 0; i < w; i++ {
			lines = append(lines, PadName(i)+" = "+fmt.Sprint(i%7))
		}
		lastv := PadName(w - 1)
		s.used["s"] = true
		lines = append(lines, "s = 0", "for e <- fromto("+lastv+" - 2, "+lastv+" + 1) {\ns = s * 10 + e\n}")
		if ar > 0 {
			lines = append(lines, "s + "+ps[0])
		} else {
			lines = append(lines, "s + "+PadName(w/2))
		}
		src = name + " = (" + strings.Join(ps, ", ") + ") -> " + block(lines)
	case t == 7 && !g.NoClosures: // returns a closure whose loop iterates directly over a captured variable
		feats = append(feats, "def.returns_looping_closure")
		k := s.fresh()
		s.consts = append(s.consts, k)
		src = name + " = (" + strings.Join(ps, ", ") + ") -> " + block([]string{k + " = " + g.IntExpr(s, 1) + " % 5 + 1",
			"(x) -> {\ns = 0\nfor i <- fromto(0, " + k + ") {\ns = s + x + i\n}\ns * 10 + " + k + "\n}"})
		d := Def{Name: name, Src: src, Kind: Maker, Arity: ar, Feat: feats}
		g.Defs = append(g.Defs, d)
		g.feat("def.returns_looping_closure")
		return d
	case t == 6 && !g.NoClosures: // returns a closure that a generator yielded: its captured frame lives in an iterator context
		feats = append(feats, "def.returns_yielded_closure")
		gm := "gy" + letters(g.nGn)
		g.nGn++
		c := g.lit()
		g.Pre = append(g.Pre, gm+" = (b) -> {\nk = b * 3 + "+c+"\nyield (x) -> x * 2 + k\nyield (x) -> x\n}")
		arg := g.lit()
		if ar > 0 {
			arg = ps[0]
		}
		src = name + " = (" + strings.Join(ps, ", ") + ") -> for f <- " + gm + "(" + arg + ") {\nreturn f\n}"
		d := Def{Name: name, Src: src, Kind: Maker, Arity: ar, Feat: feats}
		g.Defs = append(g.Defs, d)
		g.feat("def.returns_yielded_closure")
		return d
	case t == 4 && !g.NoClosures: // returns a closure; callers bind and call it
		feats = append(feats, "def.returns_closure")
		k := s.fresh()
		s.consts = append(s.consts, k)
		lines := []string{k + " = " + g.IntExpr(s, 1)}
		mk := name
		src = mk + " = (" + strings.Join(ps, ", ") + ") -> " + block(append(lines, "(x) -> x * "+k+" + "+g.atom(s)))
		d := Def{Name: name, Src: src, Kind: Maker, Arity: ar, Feat: feats}
		g.Defs = append(g.Defs, d)
		return d
	default:
		feats = append(feats, "def.freeform")
		lines := g.Stmts(s, 1+g.T.Draw(4), true)
		src = name + " = (" + strings.Join(ps, ", ") + ") -> " + block(lines)
	}
	d := Def{Name: name, Src: src, Kind: Pure, Arity: ar, Feat: feats}
	g.Defs = append(g.Defs, d)
	return d
}

// DefCondLocals adds a pure function most of whose locals are assigned only on a path that is not
// taken: reading them gives nil (Readme: a name with no value is nil; the repository's own
// "uninitialised local" test). Its frame is k+2 slots wide, so the slots it does not write are
// whatever the stack held there unless PushFrame clears them.
func (g *G) DefCondLocals() Def {
	name := "fn" + letters(g.nFn)
	g.nFn++
	k := []int{2, 5, 20, 60, 127, 130}[g.T.Draw(6)]
	var lines []string
	lines = append(lines, "if n > 1000 {")
	for i := 0; i < k; i++ {
		lines = append(lines, PadName(i)+" = n + "+fmt.Sprint(i))
	}
	lines = append(lines, "}", "m = n * 2")
	if g.T.Bool() { // some of them assigned on the taken path, after a nested call that uses the stack above the frame
		lines = append(lines, PadName(k/2)+" = deep(n) + 1")
		g.NeedDeep = true
	}
	pick := []int{0, k / 2, k - 1}
	var el []string
	for _, i := range pick {
		el = append(el, PadName(i))
	}
	lines = append(lines, "["+strings.Join(el, ", ")+", m]")
	d := Def{Name: name, Src: name + " = (n) -> " + block(lines), Kind: ArrPure, Arity: 1, Feat: []string{"def.cond_locals"}}
	g.Defs = append(g.Defs, d)
	g.feat("def.cond_locals")
	return d
}

func restArgs(ps []string) string {
	if len(ps) <= 1 {
		return ""
	}
	return ", " + strings.Join(ps[1:], ", ")
}

// DefProc adds a function whose tail statement is an arbitrary statement form.
func (g *G) DefProc() Def {
	name := "fn" + letters(g.nFn)
	g.nFn++
	ar := g.T.Draw(2)
	ps := paramNames(ar)
	s := g.newScope(ps, false)
	lines := g.Stmts(s, g.T.Draw(3), false)
	// the tail: any statement form, in returning position
	tail := g.stmt(s, false)
	lines = append(lines, tail...)
	d := Def{Name: name, Src: name + " = (" + strings.Join(ps, ", ") + ") -> " + block(lines), Kind: Proc, Arity: ar, Feat: []string{"def.proc"}}
	g.Defs = append(g.Defs, d)
	return d
}

// DefGen adds a generator.
func (g *G) DefGen() Def {
	name := "gn" + letters(g.nGn)
	g.nGn++
	ar := g.T.Draw(2)
	ps := paramNames(ar)
	s := g.newScope(ps, true)
	var lines []string
	var feats []string
	switch g.T.Draw(6) {
	case 0: // explicit yields
		feats = append(feats, "gen.explicit")
		n := 1 + g.T.Draw(4)
		for i := 0; i < n; i++ {
			lines = append(lines, g.yieldLines(s, g.lit())...)
		}
	case 1: // counting loop with filter
		feats = append(feats, "gen.while")
		lim := "4"
		if ar > 0 {
			lim = ps[0]
		}
		inner := g.yieldLines(s, "i * "+fmt.Sprint(1+g.T.Draw(3)))
		body := []string{"if i % " + fmt.Sprint(1+g.T.Draw(3)) + " == 0 " + block(inner), "i = i + 1"}
		s.used["i"] = true
		lines = []string{"i = 0", "while i < " + lim + " " + block(body)}
	case 2: // recursive walk
		feats = append(feats, "gen.recursive")
		if ar == 0 {
			ps = []string{"n"}
			ar = 1
			s = g.newScope(ps, true)
		}
		inner := []string{name + "(" + ps[0] + " - 1)"}
		inner = append(inner, g.yieldLines(s, ps[0])...)
		if g.T.Bool() {
			inner = append(inner, name+"("+ps[0]+" - 1)")
		}
		lines = []string{"if " + ps[0] + " > 0 " + block(inner)}
	case 3: // generator over a generator (for ... yield)
		feats = append(feats, "gen.over_gen")
		it := g.iterExpr(s)
		body := g.yieldLines(s, "e + "+g.lit())
		lines = []string{"for e <- " + it + " " + block(body)}
	case 4: // yield through a helper call
		feats = append(feats, "gen.helper_yield")
		lines = []string{"h = (x) -> yield x * 2"}
		s.used["h"] = true
		n := 1 + g.T.Draw(3)
		for i := 0; i < n; i++ {
			if g.T.Bool() {
				// the value of the helper's yield expression is yielded again
				feats = append(feats, "gen.yield_value_of_yield")
				lines = append(lines, g.yieldLines(s, "h("+g.lit()+")")...)
			} else {
				lines = append(lines, "h("+g.lit()+")")
			}
		}
	default:
		feats = append(feats, "gen.freeform")
		lines = g.Stmts(s, 2+g.T.Draw(4), false)
		lines = append(lines, g.yieldLines(s, g.atom(s))...)
	}
	d := Def{Name: name, Src: name + " = (" + strings.Join(ps, ", ") + ") -> " + block(lines), Kind: Gen, Arity: ar, Feat: feats}
	g.Defs = append(g.Defs, d)
	return d
}

func (g *G) yieldLines(s *scope, e string) []string {
	if g.Log {
		t := s.fresh()
		return []string{t + " = " + e, g.event("y", t), "yield " + t, g.event("r", t)}
	}
	return []string{"yield " + e}
}

// Wrapper defines a function that calls `inner` (an expression over no
// variables) under depth extra frames, each with width padding locals, and
// returns the name of the outermost wrapper call expression.
func (g *G) Wrapper(inner string, depth, width int) (defs []string, call string) {
	call = inner
	for d := 0; d < depth; d++ {
		name := "wr" + letters(g.nWr)
		g.nWr++
		var lines []string
		for w := 0; w < width; w++ {
			lines = append(lines, PadName(w)+" = "+fmt.Sprint(w))
		}
		lines = append(lines, "r = "+call, "r")
		defs = append(defs, name+" = () -> "+block(lines))
		call = name + "()"
	}
	return defs, call
}

// DeepCall wraps inner under n recursive frames using one definition.
func (g *G) DeepCall(inner string, n int) (def string, call string) {
	name := "wr" + letters(g.nWr)
	g.nWr++
	def = name + " = (n) -> if n <= 0 {\n" + inner + "\n} else {\n" + name + "(n - 1)\n}"
	return def, name + "(" + fmt.Sprint(n) + ")"
}
