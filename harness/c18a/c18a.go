// Package c18a is part A of property C18 ("frames are isolated under any
// growth: a variable holds its last written value").
//
// One run plays a tape-generated history of the VM's memory protocol against
// real memory.Type objects (the main memory, forked children, recycled
// children) and against a trivial model made of explicit frames, and compares
// every value the real code hands back with the model.
//
// The op list is a pure function of the tape: generation only looks at the
// model, never at the real objects, so one tape gives the same history on the
// pinned tree, on a repaired tree and on a mutated tree.
package c18a

import (
	"encoding/json"
	"fmt"
	"runtime"
	"slices"
	"strings"

	"github.com/paulsonkoly/calc/memory"
	"github.com/paulsonkoly/calc/types/value"

	"verif/core"
	"verif/tape"
)

// ID is the property id used for seed derivation.
const ID = "C18"

const (
	maxOps   = 200  // generated ops per history (the final unwinding comes on top)
	maxSlots = 5000 // soft bound on one memory's stack pointer
	maxDepth = 400  // bound on one memory's frame count
	maxLive  = 6    // live memories (main included)
	maxFree  = 4    // free list length

	nilV = -1 // model encoding of value.Nil
	badV = -2 // model encoding of "neither nil nor int"
)

// Rule is the non-triviality rule of the property.
func Rule() string {
	return "non-trivial = the value stack of some memory was reallocated (StackLen changed) while a live frame " +
		"existed below the top one, or a Clone went into a recycled memory"
}

// Assumptions lists what the simulation takes for granted.
func Assumptions() []string {
	return []string{
		"the memory package is driven only through the call protocol vm.go uses: args pushed then PushFrame, PushClosure, Push(return address); IP, PopFrame, PopClosure, Push(result) on return",
		"closure frames handed to PushClosure are independent slices (fresh, or slices.Clone of Top() as RET does); the live-slice capture of FUNC is outside this part (known finding K3)",
		"a forked memory never returns from its seed frame and never pops the closure stack below its height at creation (DCONT destroys it instead)",
		"children forked while a frame was on top are destroyed before that frame returns (RCONT precedes RET)",
		"globals are written only at call depth 0; they are one map shared by every memory of the world",
		"values are ints and nil only; widths up to ~512 slots, depth up to 400 frames, stack up to ~5000 slots per memory, at most 6 live memories",
		"memory exhaustion is not simulated",
	}
}

// ---------------------------------------------------------------- model

type frame struct {
	real    bool  // false: the depth-0 scratch area (no locals, no return address)
	locals  []int // args + locals
	ret     int   // saved return address
	scratch []int // operand stack above the return address
}

type mem struct {
	id        int
	m         *memory.Type
	frames    []*frame // frames[0] is the seed frame of a child, or the depth-0 area
	closure   [][]int  // by value
	parent    *mem
	kids      []*mem // live children in creation order
	forkLevel int    // len(parent.frames) when forked
	alive     bool
	sp        int // slots in use
	slen      int // predicted allocated length; used only to aim sizes at boundaries
}

func (M *mem) top() *frame { return M.frames[len(M.frames)-1] }

func (M *mem) depth() int {
	if M.frames[0].real {
		return len(M.frames)
	}
	return len(M.frames) - 1
}

// shadowGrow follows the pinned growth rule; aiming only, never checked.
func (M *mem) shadowGrow(size int) {
	if M.sp+size >= M.slen {
		M.slen += max(128, size)
	}
}

type freeEnt struct {
	m    *memory.Type
	id   int
	slen int
}

// ---------------------------------------------------------------- ops

type kind uint8

const (
	kCheck kind = iota
	kRead
	kSet
	kPush
	kPop
	kCall
	kRet
	kSwitch
	kFork
	kDestroy
	kClosure
	kGGet
	kGSet
	kAudit
	kPushN
	kPopN
	kCallN
	kRetN
	kReset
	kTopRet
	kRcont
	kFinal
)

var weights = []struct {
	k kind
	w int
}{
	{kCheck, 6}, {kRead, 16}, {kSet, 22}, {kPush, 20}, {kPop, 14}, {kCall, 28}, {kRet, 18},
	{kSwitch, 16}, {kFork, 14}, {kDestroy, 8}, {kClosure, 6}, {kGGet, 4}, {kGSet, 4}, {kAudit, 6},
	{kPushN, 6}, {kPopN, 4}, {kCallN, 3}, {kRetN, 2}, {kReset, 1}, {kTopRet, 2},
}

var weightSum = func() int {
	s := 0
	for _, w := range weights {
		s += w.w
	}
	return s
}()

type op struct {
	k          kind
	mem        int
	a, b, c, d int
	final      bool
}

var globalNames = []string{"a", "b", "c", "d"}

func (o op) String() string {
	s := ""
	switch o.k {
	case kCheck:
		s = fmt.Sprintf("m%d check(CallDepth,IP,Top)", o.mem)
	case kRead:
		s = fmt.Sprintf("m%d LookUpLocal(%d)", o.mem, o.a)
	case kSet:
		s = fmt.Sprintf("m%d Set(%d, %d)", o.mem, o.a, o.b)
	case kPush:
		s = fmt.Sprintf("m%d Push(%d)", o.mem, o.a)
	case kPop:
		s = fmt.Sprintf("m%d Pop()", o.mem)
	case kCall:
		cl := fmt.Sprintf("fresh[%d]", o.c)
		if o.c < 0 {
			cl = "clone(Top())"
		}
		s = fmt.Sprintf("m%d call argc=%d localc=%d closure=%s values=%d..", o.mem, o.a, o.b, cl, o.d)
	case kRet:
		s = fmt.Sprintf("m%d ret result=%d", o.mem, o.a)
	case kSwitch:
		s = fmt.Sprintf("switch to m%d (audit)", o.mem)
	case kFork:
		if o.b < 0 {
			s = fmt.Sprintf("m%d fork -> m%d = Clone(nil)", o.mem, o.a)
		} else {
			s = fmt.Sprintf("m%d fork -> m%d = Clone(recycled m%d)", o.mem, o.a, o.b)
		}
	case kDestroy:
		s = fmt.Sprintf("destroy m%d (to free list)", o.mem)
	case kRcont:
		s = fmt.Sprintf("m%d rcont: destroy m%d before return", o.mem, o.a)
	case kClosure:
		s = fmt.Sprintf("m%d LookUpClosure(%d)", o.mem, o.a)
	case kGGet:
		s = fmt.Sprintf("m%d LookUpGlobal(%s)", o.mem, globalNames[o.a])
	case kGSet:
		s = fmt.Sprintf("m%d SetGlobal(%s, %d)", o.mem, globalNames[o.a], o.b)
	case kAudit:
		s = fmt.Sprintf("m%d audit", o.mem)
	case kPushN:
		s = fmt.Sprintf("m%d push x%d values=%d..", o.mem, o.a, o.b)
	case kPopN:
		s = fmt.Sprintf("m%d pop x%d", o.mem, o.a)
	case kCallN:
		s = fmt.Sprintf("m%d call x%d argc=%d localc=%d closure=fresh[%d] values=%d..", o.mem, o.a, o.b, o.c, o.d>>32, o.d&0xffffffff)
	case kRetN:
		s = fmt.Sprintf("m%d ret x%d results=%d..", o.mem, o.a, o.b)
	case kReset:
		s = fmt.Sprintf("m%d Reset() (children and free list dropped)", o.mem)
	case kTopRet:
		s = fmt.Sprintf("m%d toplevel ret: ResetSP, Push(%d)", o.mem, o.a)
	case kFinal:
		s = fmt.Sprintf("m%d audit, then unwind", o.mem)
	default:
		s = fmt.Sprintf("m%d ?%d", o.mem, o.k)
	}
	if o.final {
		s = "final: " + s
	}
	return s
}

// History is an op list that renders lazily: it marshals to a JSON array of strings.
type History []op

// Strings renders the op list.
func (h History) Strings() []string { return render(h) }

// String renders the op list one op per line.
func (h History) String() string { return strings.Join(render(h), "\n") }

// MarshalJSON renders the op list as a JSON array of strings.
func (h History) MarshalJSON() ([]byte, error) { return json.Marshal(render(h)) }

func render(ops []op) []string {
	out := make([]string, len(ops))
	for i, o := range ops {
		out[i] = o.String()
	}
	return out
}

// ---------------------------------------------------------------- run state

const (
	stF8CloneAtDepth0 = iota
	stF8CloneExtentGt128
	stF8CloneFresh
	stF8CloneRecycled
	stF8CloneRecycledLargerTarget
	stF8CloneRecycledSmallerTarget
	stF8CloneRecycledSmallerTargetStaleSpSmall
	stF8CloneRecycledStaleSpAboveNewSp
	stF8CloneWithClosureStack
	stF8GrewWithLiveFrameBelow
	stF8StackGrew
	stProbeClosurePushAfterCloneChild
	stProbeClosurePushAfterCloneParent
	stProbeDepthGe64
	stProbeScratchGe128
	stProbeWidthGe128
	stCount
)

var statNames = [stCount]string{
	"F8.clone_at_depth0",
	"F8.clone_extent>128",
	"F8.clone_fresh",
	"F8.clone_recycled",
	"F8.clone_recycled_larger_target",
	"F8.clone_recycled_smaller_target",
	"F8.clone_recycled_smaller_target_stale_sp_small",
	"F8.clone_recycled_stale_sp_above_new_sp",
	"F8.clone_with_closure_stack",
	"F8.grew_with_live_frame_below",
	"F8.stack_grew",
	"probe.closure_push_after_clone_child",
	"probe.closure_push_after_clone_parent",
	"probe.depth>=64",
	"probe.scratch>=128",
	"probe.width>=128",
}

const (
	tagPlain = iota
	tagReturn
	tagCloneParent
	tagCloneChild
	tagSwitch
)

type gen struct {
	tp      *tape.Tape
	stats   [stCount]int
	ops     []op
	nextID  int
	live    []*mem
	free    []freeEnt // index 0 is the front
	globals [4]int
	main    *mem
	cur     *mem
	next    int
	trace   uint64
	inter   core.Hash64
	viol    *core.Violation
	nontriv bool
	final   bool
	maxW    int
	maxD    int
}

func enc(v value.Type) int {
	if v.IsNil() {
		return nilV
	}
	if n, ok := v.ToInt(); ok {
		return n
	}
	return badV
}

func mk(n int) value.Type {
	if n == nilV {
		return value.Nil
	}
	return value.NewInt(n)
}

func show(n int) string {
	switch n {
	case nilV:
		return "nil"
	case badV:
		return "<non-int>"
	}
	return fmt.Sprint(n)
}

func (g *gen) fresh() int {
	v := g.next
	g.next++
	return v
}

func (g *gen) record(o op) {
	o.final = g.final
	g.ops = append(g.ops, o)
}

func (g *gen) curOp() string {
	if len(g.ops) == 0 {
		return "start"
	}
	return fmt.Sprintf("op #%d %q", len(g.ops)-1, g.ops[len(g.ops)-1].String())
}

func (g *gen) describe(M *mem) string {
	s := fmt.Sprintf("m%d", M.id)
	if M.parent != nil {
		s += fmt.Sprintf("(child of m%d)", M.parent.id)
	}
	return s
}

func (g *gen) fail(clause, detail string) {
	if g.viol != nil {
		return
	}
	g.viol = &core.Violation{Clause: clause, Detail: detail + "; at " + g.curOp()}
}

// expect compares one observed value with the model.
func (g *gen) expect(clause string, M *mem, what string, idx, want, got int) bool {
	g.trace = (g.trace ^ uint64(got)) * 0x100000001b3
	if want == got {
		return true
	}
	if g.viol == nil {
		g.fail(clause, fmt.Sprintf("%s frame %d %s[%d]: expected %s got %s", g.describe(M), len(M.frames)-1, what, idx, show(want), show(got)))
	}
	return false
}

// guard runs f and turns a Go panic raised inside the calc packages into a violation.
func (g *gen) guard(f func()) {
	defer func() {
		r := recover()
		if r == nil {
			return
		}
		pcs := make([]uintptr, 64)
		n := runtime.Callers(0, pcs)
		fr := runtime.CallersFrames(pcs[:n])
		method := ""
		for {
			fn, more := fr.Next()
			if strings.Contains(fn.Function, "paulsonkoly/calc/memory.") {
				method = fn.Function[strings.LastIndex(fn.Function, ".")+1:]
				break
			}
			if !more {
				break
			}
		}
		if method == "" {
			panic(r) // a harness bug, not a finding
		}
		g.fail("panic:"+method, fmt.Sprintf("Go panic inside memory.%s under a legal history: %v", method, r))
	}()
	f()
}

// ---------------------------------------------------------------- sizes

var boundary = []int{0, 1, 2, 3, 126, 127, 128, 129, 130, 255, 256, 257, 300, 384, 512}
var depthTargets = []int{2, 3, 5, 8, 62, 63, 64, 65, 66, 127, 128, 129, 200}

// size draws a width/height: small numbers mostly, deliberate boundary picks otherwise.
func (g *gen) size(M *mem) int {
	n := 0
	switch g.tp.Draw(10) {
	case 0, 1, 2, 3, 4, 5:
		n = g.tp.Range(0, 3)
	case 6:
		n = g.tp.Range(0, 16)
	case 7, 8:
		n = boundary[g.tp.Pick(len(boundary))]
	default:
		// land within two slots of the predicted end of the allocated stack
		n = max(0, M.slen-M.sp-2+g.tp.Range(0, 4))
	}
	if M.sp+n > maxSlots {
		n %= 4
	}
	return n
}

// ---------------------------------------------------------------- checks

func localClause(tag int) string {
	switch tag {
	case tagReturn:
		return "local-read-after-return"
	case tagCloneParent:
		return "local-read-after-clone"
	case tagCloneChild:
		return "clone-local"
	case tagSwitch:
		return "local-read-after-switch"
	}
	return "local-read"
}

func popClause(tag int) string {
	switch tag {
	case tagReturn:
		return "pop-value-after-return"
	case tagCloneParent:
		return "pop-value-after-clone"
	case tagCloneChild:
		return "clone-scratch"
	case tagSwitch:
		return "pop-value-after-switch"
	}
	return "pop-value"
}

func ipClause(tag int) string {
	if tag == tagCloneChild {
		return "clone-ip"
	}
	return "ip"
}

func closureClause(tag int) string {
	switch tag {
	case tagCloneChild:
		return "clone-closure"
	case tagSwitch:
		return "closure-read-after-switch"
	}
	return "closure-read"
}

func (g *gen) checkDepth(M *mem) {
	got := M.m.CallDepth()
	g.trace = (g.trace ^ uint64(got)) * 0x100000001b3
	if got != M.depth() {
		g.fail("callDepth", fmt.Sprintf("%s CallDepth(): expected %d got %d", g.describe(M), M.depth(), got))
	}
}

func (g *gen) checkIP(M *mem, tag int) {
	top := M.top()
	p := M.m.IP()
	if !top.real {
		if p != nil {
			g.fail(ipClause(tag), fmt.Sprintf("%s IP() with no frame: expected nil pointer got %s", g.describe(M), show(enc(*p))))
		}
		return
	}
	if p == nil {
		g.fail(ipClause(tag), fmt.Sprintf("%s frame %d IP(): expected %d got nil pointer", g.describe(M), len(M.frames)-1, top.ret))
		return
	}
	g.expect(ipClause(tag), M, "return-address", 0, top.ret, enc(*p))
}

func (g *gen) checkTop(M *mem) {
	top := M.top()
	t := M.m.Top()
	want := 0
	if top.real {
		want = len(top.locals)
	}
	if len(t) != want {
		g.fail("top", fmt.Sprintf("%s frame %d len(Top()): expected %d got %d", g.describe(M), len(M.frames)-1, want, len(t)))
		return
	}
	for i := 0; i < want; i++ {
		if !g.expect("top", M, "Top()", i, top.locals[i], enc(t[i])) {
			return
		}
	}
}

func (g *gen) light(M *mem) {
	g.checkDepth(M)
	g.checkIP(M, tagPlain)
	g.checkTop(M)
}

// audit reads everything readable in M's current activation and compares it with the model.
func (g *gen) audit(M *mem, tag int) {
	top := M.top()
	g.checkDepth(M)
	g.checkIP(M, tag)
	if g.viol != nil {
		return
	}
	if top.real {
		lc := localClause(tag)
		for i, w := range top.locals {
			if !g.expect(lc, M, "local", i, w, enc(M.m.LookUpLocal(i))) {
				return
			}
		}
	}
	g.checkTop(M)
	if g.viol != nil {
		return
	}
	if len(M.closure) > 0 {
		cc := closureClause(tag)
		for i, w := range M.closure[len(M.closure)-1] {
			if !g.expect(cc, M, "closure", i, w, enc(M.m.LookUpClosure(i))) {
				return
			}
		}
	}
	// operand stack: pop everything down to the return address slot, then put it back
	pc := popClause(tag)
	before := M.m.StackLen()
	for i := len(top.scratch) - 1; i >= 0; i-- {
		if !g.expect(pc, M, "scratch", i, top.scratch[i], enc(M.m.Pop())) {
			return
		}
	}
	M.sp -= len(top.scratch)
	for _, v := range top.scratch {
		M.shadowGrow(1)
		M.m.Push(mk(v))
		M.sp++
	}
	g.grew(M, before)
	for i := range globalNames {
		if !g.expect("global-read", M, "global", i, g.globals[i], enc(M.m.LookUpGlobal(globalNames[i]))) {
			return
		}
	}
}

func (g *gen) grew(M *mem, before int) {
	if M.m.StackLen() == before {
		return
	}
	g.stats[stF8StackGrew]++
	if M.depth() >= 2 {
		g.stats[stF8GrewWithLiveFrameBelow]++
		g.nontriv = true
	}
}

// ---------------------------------------------------------------- protocol

func (g *gen) push(M *mem, n int) {
	before := M.m.StackLen()
	top := M.top()
	for i := 0; i < n; i++ {
		v := g.fresh()
		M.shadowGrow(1)
		M.m.Push(mk(v))
		top.scratch = append(top.scratch, v)
		M.sp++
	}
	g.grew(M, before)
	if len(top.scratch) >= 128 {
		g.stats[stProbeScratchGe128]++
	}
}

func (g *gen) pop(M *mem, n int, tag int) {
	top := M.top()
	for i := 0; i < n && g.viol == nil; i++ {
		w := top.scratch[len(top.scratch)-1]
		top.scratch = top.scratch[:len(top.scratch)-1]
		M.sp--
		g.expect(popClause(tag), M, "scratch", len(top.scratch), w, enc(M.m.Pop()))
	}
}

// call plays vm CALL: args, PushFrame, PushClosure, Push(return address).
// cln < 0 asks for slices.Clone(Top()) as the closure frame.
func (g *gen) call(M *mem, argc, extra, cln int) {
	top := M.top()
	localc := argc + extra
	var cf []value.Type
	var mcf []int
	if cln < 0 {
		g.checkTop(M)
		if g.viol != nil {
			return
		}
		cf = slices.Clone(M.m.Top())
		if top.real {
			mcf = slices.Clone(top.locals)
		}
	} else {
		cf = make([]value.Type, cln)
		mcf = make([]int, cln)
		for i := range cf {
			mcf[i] = g.fresh()
			cf[i] = mk(mcf[i])
		}
	}
	before := M.m.StackLen()
	nf := &frame{real: true, locals: make([]int, localc)}
	for i := 0; i < argc; i++ {
		v := g.fresh()
		M.shadowGrow(1)
		M.m.Push(mk(v))
		M.sp++
		nf.locals[i] = v
	}
	M.shadowGrow(extra)
	M.m.PushFrame(argc, localc)
	M.sp += extra
	for i := argc; i < localc; i++ {
		nf.locals[i] = nilV
	}
	M.m.PushClosure(cf)
	nf.ret = g.fresh()
	M.shadowGrow(1)
	M.m.Push(mk(nf.ret))
	M.sp++
	M.frames = append(M.frames, nf)
	M.closure = append(M.closure, mcf)
	g.grew(M, before)

	if len(M.kids) > 0 {
		g.stats[stProbeClosurePushAfterCloneParent]++
	}
	if M.parent != nil {
		g.stats[stProbeClosurePushAfterCloneChild]++
	}
	if localc >= 128 && localc > g.maxW {
		if g.maxW < 128 {
			g.stats[stProbeWidthGe128]++
		}
		g.maxW = localc
	}
	if d := M.depth(); d >= 64 && g.maxD < 64 {
		g.stats[stProbeDepthGe64]++
		g.maxD = d
	}

	// the new activation: parameters hold the args, fresh locals are nil
	g.checkIP(M, tagPlain)
	for i := 0; i < localc && g.viol == nil; i++ {
		cl := "fresh-local-nil"
		if i < argc {
			cl = "param-read"
		}
		g.expect(cl, M, "local", i, nf.locals[i], enc(M.m.LookUpLocal(i)))
	}
}

// ret plays vm RET: IP, PopFrame, PopClosure, Push(result); then re-reads the re-exposed frame.
func (g *gen) ret(M *mem) {
	L := len(M.frames)
	for i := 0; i < len(M.kids); {
		if k := M.kids[i]; k.forkLevel >= L {
			g.record(op{k: kRcont, mem: M.id, a: k.id})
			g.destroy(k)
			continue
		}
		i++
	}
	top := M.top()
	g.checkIP(M, tagPlain)
	if g.viol != nil {
		return
	}
	before := M.m.StackLen()
	M.m.PopFrame()
	M.m.PopClosure()
	M.frames = M.frames[:L-1]
	M.closure = M.closure[:len(M.closure)-1]
	M.sp -= len(top.locals) + 1 + len(top.scratch)
	r := g.fresh()
	M.shadowGrow(1)
	M.m.Push(mk(r))
	M.sp++
	caller := M.top()
	caller.scratch = append(caller.scratch, r)
	g.grew(M, before)
	g.audit(M, tagReturn)
}

func (g *gen) newMem(m *memory.Type, parent *mem) *mem {
	M := &mem{id: g.nextID, m: m, parent: parent, alive: true}
	g.nextID++
	g.live = append(g.live, M)
	if parent != nil {
		parent.kids = append(parent.kids, M)
		M.forkLevel = len(parent.frames)
	}
	return M
}

// fork plays vm CCONT: Clone(nil) or Clone(recycled).
func (g *gen) fork(M *mem, fi int) *mem {
	top := M.top()
	extent := 0
	if top.real {
		extent = len(top.locals) + 1 + len(top.scratch)
	}
	need := max(extent, 128)
	var reuse *memory.Type
	reusedID, slen := -1, need
	if fi >= 0 {
		fe := g.free[fi]
		g.free = slices.Delete(g.free, fi, fi+1)
		reuse, reusedID = fe.m, fe.id
		slen = max(fe.slen, need)
		rl := reuse.StackLen()
		g.stats[stF8CloneRecycled]++
		if rl < extent {
			g.stats[stF8CloneRecycledSmallerTarget]++
			if reuse.SP()+(extent-rl) < rl { // the stale sp is so low that sizing by it would not grow the stack
				g.stats[stF8CloneRecycledSmallerTargetStaleSpSmall]++
			}
		}
		if rl > need {
			g.stats[stF8CloneRecycledLargerTarget]++
		}
		if reuse.SP() > extent {
			g.stats[stF8CloneRecycledStaleSpAboveNewSp]++
		}
		g.nontriv = true
	} else {
		g.stats[stF8CloneFresh]++
	}
	if !top.real {
		g.stats[stF8CloneAtDepth0]++
	}
	if extent > 128 {
		g.stats[stF8CloneExtentGt128]++
	}
	if len(M.closure) > 0 {
		g.stats[stF8CloneWithClosureStack]++
	}
	// the child is registered before Clone so the op is in the history if Clone panics
	C := g.newMem(nil, M)
	g.record(op{k: kFork, mem: M.id, a: C.id, b: reusedID})
	C.m = M.m.Clone(reuse)
	C.slen = slen
	if top.real {
		C.frames = []*frame{{real: true, locals: slices.Clone(top.locals), ret: top.ret, scratch: slices.Clone(top.scratch)}}
		C.sp = extent
	} else {
		C.frames = []*frame{{}}
	}
	C.closure = slices.Clone(M.closure)
	g.audit(M, tagCloneParent)
	if g.viol == nil {
		g.audit(C, tagCloneChild)
	}
	return C
}

// destroy plays deleteContext: descendants first, then the memory itself, each to the front of the free list.
func (g *gen) destroy(C *mem) {
	for len(C.kids) > 0 {
		g.destroy(C.kids[0])
	}
	g.drop(C)
	g.free = slices.Insert(g.free, 0, freeEnt{m: C.m, id: C.id, slen: C.slen})
	if len(g.free) > maxFree {
		g.free = g.free[:maxFree]
	}
}

func (g *gen) drop(C *mem) {
	C.alive = false
	if p := C.parent; p != nil {
		if i := slices.Index(p.kids, C); i >= 0 {
			p.kids = slices.Delete(p.kids, i, i+1)
		}
	}
	if i := slices.Index(g.live, C); i >= 0 {
		g.live = slices.Delete(g.live, i, i+1)
	}
	for !g.cur.alive {
		g.cur = g.cur.parent
	}
}

func (g *gen) dropTree(C *mem) {
	for len(C.kids) > 0 {
		g.dropTree(C.kids[0])
	}
	g.drop(C)
}

// ---------------------------------------------------------------- generation

func (g *gen) pickOp() kind {
	d := g.tp.Draw(weightSum)
	for _, w := range weights {
		if d < w.w {
			return w.k
		}
		d -= w.w
	}
	return kCheck
}

func (g *gen) check(M *mem) {
	g.record(op{k: kCheck, mem: M.id})
	g.light(M)
}

func (g *gen) step() {
	M := g.cur
	top := M.top()
	switch g.pickOp() {
	case kRead:
		if !top.real || len(top.locals) == 0 {
			g.check(M)
			return
		}
		i := g.tp.Pick(len(top.locals))
		g.record(op{k: kRead, mem: M.id, a: i})
		g.expect("local-read", M, "local", i, top.locals[i], enc(M.m.LookUpLocal(i)))

	case kSet:
		if !top.real || len(top.locals) == 0 {
			g.check(M)
			return
		}
		i := g.tp.Pick(len(top.locals))
		v := g.fresh()
		g.record(op{k: kSet, mem: M.id, a: i, b: v})
		M.m.Set(i, mk(v))
		top.locals[i] = v
		g.expect("local-read", M, "local", i, v, enc(M.m.LookUpLocal(i)))

	case kPush:
		g.record(op{k: kPush, mem: M.id, a: g.next})
		g.push(M, 1)

	case kPop:
		if len(top.scratch) == 0 {
			g.check(M)
			return
		}
		g.record(op{k: kPop, mem: M.id})
		g.pop(M, 1, tagPlain)

	case kCall:
		if len(M.frames) >= maxDepth {
			g.check(M)
			return
		}
		argc := g.tp.Range(0, 3)
		if g.tp.Draw(4) == 3 {
			argc = g.size(M)
		}
		extra := g.size(M)
		if M.sp+argc+extra > maxSlots {
			argc, extra = argc%4, extra%4
		}
		cln := g.tp.Range(0, 3)
		if g.tp.Draw(4) == 3 {
			cln = -1
		}
		g.record(op{k: kCall, mem: M.id, a: argc, b: argc + extra, c: cln, d: g.next})
		g.call(M, argc, extra, cln)

	case kRet:
		if len(M.frames) <= 1 {
			g.check(M)
			return
		}
		g.retOp(M)

	case kSwitch:
		if len(g.live) <= 1 {
			g.check(M)
			return
		}
		N := g.live[g.tp.Pick(len(g.live))]
		g.cur = N
		g.inter = g.inter.Int(N.id)
		g.record(op{k: kSwitch, mem: N.id})
		g.audit(N, tagSwitch)

	case kFork:
		if len(g.live) >= maxLive {
			g.check(M)
			return
		}
		fi := -1
		if len(g.free) > 0 && g.tp.Draw(4) > 0 {
			fi = g.tp.Pick(len(g.free))
		}
		C := g.fork(M, fi)
		if g.tp.Bool() {
			g.cur = C
			g.inter = g.inter.Int(C.id)
		}

	case kDestroy:
		if len(g.live) <= 1 {
			g.check(M)
			return
		}
		C := g.live[1+g.tp.Pick(len(g.live)-1)]
		g.record(op{k: kDestroy, mem: C.id})
		g.destroy(C)

	case kClosure:
		if len(M.closure) == 0 || len(M.closure[len(M.closure)-1]) == 0 {
			g.check(M)
			return
		}
		cf := M.closure[len(M.closure)-1]
		i := g.tp.Pick(len(cf))
		g.record(op{k: kClosure, mem: M.id, a: i})
		g.expect("closure-read", M, "closure", i, cf[i], enc(M.m.LookUpClosure(i)))

	case kGGet:
		g.globalGet(M)

	case kGSet:
		if M.depth() != 0 {
			g.globalGet(M)
			return
		}
		i := g.tp.Pick(len(globalNames))
		v := g.fresh()
		g.record(op{k: kGSet, mem: M.id, a: i, b: v})
		M.m.SetGlobal(globalNames[i], mk(v))
		g.globals[i] = v
		g.expect("global-read", M, "global", i, v, enc(M.m.LookUpGlobal(globalNames[i])))

	case kAudit:
		g.record(op{k: kAudit, mem: M.id})
		g.audit(M, tagPlain)

	case kPushN:
		n := g.size(M)
		g.record(op{k: kPushN, mem: M.id, a: n, b: g.next})
		g.push(M, n)

	case kPopN:
		n := min(g.size(M), len(top.scratch))
		g.record(op{k: kPopN, mem: M.id, a: n})
		g.pop(M, n, tagPlain)

	case kCallN:
		target := depthTargets[g.tp.Pick(len(depthTargets))]
		n := target - len(M.frames)
		if n <= 0 {
			n = 1
		}
		argc, extra, cln := g.tp.Range(0, 2), g.tp.Range(0, 2), g.tp.Range(0, 1)
		n = min(n, maxDepth-len(M.frames), (maxSlots-M.sp)/(argc+extra+1))
		if n <= 0 {
			g.check(M)
			return
		}
		g.record(op{k: kCallN, mem: M.id, a: n, b: argc, c: argc + extra, d: cln<<32 | g.next})
		for i := 0; i < n && g.viol == nil; i++ {
			g.call(M, argc, extra, cln)
		}

	case kRetN:
		n := min(g.tp.Range(1, 8), len(M.frames)-1)
		if n <= 0 {
			g.check(M)
			return
		}
		g.record(op{k: kRetN, mem: M.id, a: n, b: g.next})
		for i := 0; i < n && g.viol == nil; i++ {
			g.ret(M)
		}

	case kReset:
		// vm.dumpStack after a runtime error: main memory reset, contexts dropped, next Run starts a new free list
		if M != g.main {
			g.check(M)
			return
		}
		g.record(op{k: kReset, mem: M.id})
		for len(M.kids) > 0 {
			g.dropTree(M.kids[0])
		}
		g.free = nil
		M.m.Reset()
		M.frames = []*frame{{}}
		M.closure = nil
		M.sp = 0
		g.light(M)

	case kTopRet:
		// vm RET with no frame: ResetSP, Push(result)
		if M != g.main || M.depth() != 0 {
			g.check(M)
			return
		}
		v := g.fresh()
		g.record(op{k: kTopRet, mem: M.id, a: v})
		before := M.m.StackLen()
		if p := M.m.IP(); p != nil {
			g.fail("ip", fmt.Sprintf("%s IP() with no frame: expected nil pointer got %s", g.describe(M), show(enc(*p))))
			return
		}
		M.m.ResetSP()
		M.sp = 0
		M.shadowGrow(1)
		M.m.Push(mk(v))
		M.sp = 1
		top.scratch = append(top.scratch[:0], v)
		g.grew(M, before)

	default:
		g.check(M)
	}
}

func (g *gen) retOp(M *mem) {
	// the op is recorded after the implicit rcont records, with the result value it will push
	L := len(M.frames)
	for i := 0; i < len(M.kids); {
		if k := M.kids[i]; k.forkLevel >= L {
			g.record(op{k: kRcont, mem: M.id, a: k.id})
			g.destroy(k)
			continue
		}
		i++
	}
	g.record(op{k: kRet, mem: M.id, a: g.next})
	g.ret(M)
}

func (g *gen) globalGet(M *mem) {
	i := g.tp.Pick(len(globalNames))
	g.record(op{k: kGGet, mem: M.id, a: i})
	g.expect("global-read", M, "global", i, g.globals[i], enc(M.m.LookUpGlobal(globalNames[i])))
}

// finish audits every live memory and unwinds it frame by frame, re-reading each re-exposed frame.
func (g *gen) finish() {
	g.final = true
	for _, M := range slices.Clone(g.live) {
		if !M.alive {
			continue // destroyed by an rcont of an earlier unwinding
		}
		g.cur = M
		g.record(op{k: kFinal, mem: M.id})
		g.audit(M, tagSwitch)
		for len(M.frames) > 1 && g.viol == nil {
			g.retOp(M)
		}
		if g.viol != nil {
			return
		}
	}
}

// RunHistory executes ONE generated operation history against real memory.Type objects and a model.
func RunHistory(tp *tape.Tape) (res core.Result) {
	g := &gen{tp: tp, trace: 0x9e3779b97f4a7c15, inter: core.NewHash(), next: 1, ops: make([]op, 0, 256)}
	for i := range g.globals {
		g.globals[i] = nilV
	}
	g.main = g.newMem(memory.New(), nil)
	g.main.frames = []*frame{{}}
	g.cur = g.main

	n := tp.Range(0, maxOps)
	generated := 0
	for i := 0; i < n && g.viol == nil; i++ {
		g.guard(g.step)
		generated++
	}
	if g.viol == nil {
		g.guard(g.finish)
	}

	key := core.NewHash()
	for _, o := range g.ops {
		key = key.Int(int(o.k)<<32 | o.mem).Int(o.a).Int(o.b).Int(o.c).Int(o.d)
	}
	if g.viol != nil {
		g.viol.History = render(g.ops)
		res.Violation = g.viol
	}
	for i, n := range g.stats {
		res.Inc(statNames[i], n)
	}
	res.NonTrivial = g.nontriv
	res.Key = uint64(key)
	if g.nextID > 1 {
		res.Interleaving = uint64(g.inter)
	}
	res.Statements = generated
	res.Instructions = int64(len(g.ops))
	res.Sample = History(g.ops)
	res.TraceHash = uint64(core.NewHash().Int(int(g.trace)).Int(len(g.ops)))
	return res
}

// SelfRun runs the check over runs seeds and reports the number of violations and the first one.
func SelfRun(seed uint64, runs int) (violations int, firstDetail string) {
	for i := 0; i < runs; i++ {
		r := RunHistory(tape.New(core.SeedFor(seed, ID, i)))
		if r.Violation != nil {
			if violations == 0 {
				firstDetail = fmt.Sprintf("run %d: %s: %s", i, r.Violation.Clause, r.Violation.Detail)
			}
			violations++
		}
	}
	return violations, firstDetail
}
