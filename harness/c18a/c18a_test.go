package c18a

import (
	"os"
	"runtime/debug"
	"sort"
	"strconv"
	"strings"
	"testing"
	"time"

	"github.com/paulsonkoly/calc/memory"
	"github.com/paulsonkoly/calc/types/value"

	"verif/core"
	"verif/tape"
)

func envInt(name string, def int) int {
	if s := os.Getenv(name); s != "" {
		if n, err := strconv.Atoi(s); err == nil {
			return n
		}
	}
	return def
}

// shrink reduces a tape while keep() stays true: delete chunks, zero entries, lower entries.
func shrink(entries []uint64, keep func([]uint64) bool) []uint64 {
	cur := append([]uint64(nil), entries...)
	for changed := true; changed; {
		changed = false
		for size := 64; size >= 1; size /= 2 {
			for i := 0; i+size <= len(cur); {
				cand := append(append([]uint64(nil), cur[:i]...), cur[i+size:]...)
				if keep(cand) {
					cur, changed = cand, true
					continue
				}
				i++
			}
		}
		for i := range cur {
			if cur[i] == 0 {
				continue
			}
			for _, v := range []uint64{0, cur[i] / 2, cur[i] - 1} {
				if v >= cur[i] {
					continue
				}
				cand := append([]uint64(nil), cur...)
				cand[i] = v
				if keep(cand) {
					cur, changed = cand, true
					break
				}
			}
		}
	}
	return cur
}

func clauseOf(entries []uint64) string {
	r := RunHistory(tape.Replay(entries))
	if r.Violation == nil {
		return ""
	}
	return r.Violation.Clause
}

// TestSelf runs the check against the tree the module points at and reports; it does not fail on
// violations because the pinned tree carries two genuine defects (Clone(reuse) sizing, shared closure stack).
func TestSelf(t *testing.T) {
	// histories allocate stacks of a few thousand slots; the default GC pace makes 16 idle procs fight over them
	defer debug.SetGCPercent(debug.SetGCPercent(400))
	runs := envInt("C18A_RUNS", 20000)
	seed := uint64(envInt("C18A_SEED", 1))
	start := time.Now()
	stats := map[string]int{}
	clauses := map[string]int{}
	first := map[string]int{}
	keys := map[uint64]bool{}
	viol, nontriv, ops := 0, 0, 0
	for i := 0; i < runs; i++ {
		r := RunHistory(tape.New(core.SeedFor(seed, ID, i)))
		for k, v := range r.Stats {
			stats[k] += v
		}
		keys[r.Key] = true
		ops += r.Statements
		if r.NonTrivial {
			nontriv++
		}
		if r.Violation != nil {
			viol++
			if clauses[r.Violation.Clause] == 0 {
				first[r.Violation.Clause] = i
			}
			clauses[r.Violation.Clause]++
		}
	}
	el := time.Since(start)
	t.Logf("runs=%d violations=%d nontrivial=%d distinct=%d ops=%d elapsed=%v (%.0f runs/s)", runs, viol, nontriv, len(keys), ops, el, float64(runs)/el.Seconds())
	for _, k := range sorted(clauses) {
		t.Logf("  clause %-28s %6d  first at run %d", k, clauses[k], first[k])
	}
	for _, k := range sorted(stats) {
		t.Logf("  stat   %-58s %d", k, stats[k])
	}
	if os.Getenv("C18A_EXPECT_CLEAN") != "" && viol != 0 {
		t.Fatalf("expected zero violations, got %d", viol)
	}
	if os.Getenv("C18A_EXPECT_CAUGHT") != "" && viol == 0 {
		t.Fatalf("expected the mutation to be caught within %d runs", runs)
	}
}

func sorted(m map[string]int) []string {
	ks := make([]string, 0, len(m))
	for k := range m {
		ks = append(ks, k)
	}
	sort.Strings(ks)
	return ks
}

// TestDeterminism: the same tape gives the same history, observations and verdict; the recorded tape replays.
func TestDeterminism(t *testing.T) {
	for i := 0; i < 300; i++ {
		tp := tape.New(core.SeedFor(7, ID, i))
		a := RunHistory(tp)
		b := RunHistory(tape.New(core.SeedFor(7, ID, i)))
		c := RunHistory(tape.Replay(tp.Recorded()))
		for _, o := range []core.Result{b, c} {
			if a.Key != o.Key || a.TraceHash != o.TraceHash || (a.Violation == nil) != (o.Violation == nil) || a.Statements != o.Statements {
				t.Fatalf("run %d not deterministic: %x/%x vs %x/%x", i, a.Key, a.TraceHash, o.Key, o.TraceHash)
			}
		}
	}
}

// TestEmptyTape: the all-zero tape is the empty history and is clean.
func TestEmptyTape(t *testing.T) {
	r := RunHistory(tape.Replay(nil))
	if r.Violation != nil || r.Statements != 0 {
		t.Fatalf("empty tape: %+v", r)
	}
}

// TestMinimal shrinks the first violation of every clause seen in C18A_MIN_RUNS runs and logs the histories.
func TestMinimal(t *testing.T) {
	runs := envInt("C18A_MIN_RUNS", 3000)
	seen := map[string]bool{}
	for i := 0; i < runs; i++ {
		tp := tape.New(core.SeedFor(1, ID, i))
		r := RunHistory(tp)
		if r.Violation == nil || seen[r.Violation.Clause] {
			continue
		}
		cl := r.Violation.Clause
		seen[cl] = true
		min := shrink(tp.Recorded(), func(e []uint64) bool { return clauseOf(e) == cl })
		m := RunHistory(tape.Replay(min))
		t.Logf("clause %s (run %d, %d tape entries -> %d):\n  %s\n  history:\n    %s", cl, i, tp.Len(), len(min),
			m.Violation.Detail, strings.Join(m.Violation.History.([]string), "\n    "))
	}
}

func BenchmarkRunHistory(b *testing.B) {
	for i := 0; i < b.N; i++ {
		RunHistory(tape.New(core.SeedFor(3, ID, i)))
	}
}

// TestKnownMinimalHistories replays, straight on the memory API, the two minimal histories the search
// found on the pinned tree. It reports whether each still reproduces; it does not fail, so it stays
// green before and after the repairs are committed.
func TestKnownMinimalHistories(t *testing.T) {
	call := func(m *memory.Type, localc int, closure []value.Type, ret int) {
		m.PushFrame(0, localc)
		m.PushClosure(closure)
		m.Push(value.NewInt(ret))
	}

	// K5: Clone(reuse) sizes the recycled stack with the recycled memory's stale sp.
	func() {
		defer func() {
			if r := recover(); r != nil {
				t.Logf("K5 reproduced: Clone(nil) at depth 0; destroy; call(argc=0, localc=128); Clone(recycled); child.IP() -> %v", r)
			}
		}()
		main := memory.New()
		recycled := main.Clone(nil) // empty child: 128 slots, sp 0; then destroyed
		call(main, 128, nil, 7)     // frame extent 129 > 128
		child := main.Clone(recycled)
		if got, _ := child.IP().ToInt(); got == 7 {
			t.Logf("K5 not reproduced (repaired): child.IP() = 7, StackLen %d", child.StackLen())
		} else {
			t.Logf("K5 reproduced: child.IP() = %v, expected 7", *child.IP())
		}
	}()

	// K1: Clone shares the closure stack's backing array between parent and child.
	func() {
		main := memory.New()
		call(main, 0, nil, 1) // closure stack: len 1
		main.PopFrame()
		main.PopClosure() // len 0, cap 1
		main.Push(value.NewInt(2))
		child := main.Clone(nil)
		call(main, 0, []value.Type{value.NewInt(3)}, 4)
		call(child, 0, []value.Type{value.NewInt(5)}, 6)
		got, _ := main.LookUpClosure(0).ToInt()
		if got == 3 {
			t.Logf("K1 not reproduced (repaired): parent reads its own closure value 3")
		} else {
			t.Logf("K1 reproduced: call; ret; Clone(nil); parent call closure=[3]; child call closure=[5]; parent LookUpClosure(0) = %d, expected 3", got)
		}
	}()
}
