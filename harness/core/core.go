// Package core is the simulation framework: the property interface, the
// seeded run loop, tape shrinking, replay files, worker/coordinator
// processes, known findings and evidence files.
package core

import (
	"verif/tape"
)

// Violation describes one failed oracle clause.
type Violation struct {
	Clause  string `json:"clause"`  // which oracle clause failed (shrinking keeps this fixed)
	Detail  string `json:"detail"`  // both sides of the failed comparison
	History any    `json:"history"` // rendered history (statements, stdin, faults ...)
}

// Result is what one simulated run reports.
type Result struct {
	Violation    *Violation
	NonTrivial   bool           // by the property's stated rule
	Key          uint64         // hash identifying the run's history+schedule for distinct counting
	Interleaving uint64         // hash of the context-switch trace (0 = none)
	Stats        map[string]int // fault kinds fired, probes hit (additive counters)
	Statements   int            // simulated logical time: statements submitted
	Instructions int64          // simulated logical time: VM instructions executed
	Discard      string         // non-empty: run discarded for this reason (never a violation)
	Sample       any            // rendered history for the evidence file
	TraceHash    uint64         // everything observable, for the determinism selftest
}

// Tier is quick or thorough.
type Tier string

const (
	Quick    Tier = "quick"
	Thorough Tier = "thorough"
)

// Property is one claimed property's simulation.
type Property interface {
	ID() string
	Level() string // exploration | fault_enumeration
	// Runs is the number of simulated runs for the tier.
	Runs(t Tier) int
	// Run executes one simulated run; every choice comes from tp.
	Run(tp *tape.Tape) Result
	Rule() string
	Assumptions() []string
	RealComponents() []string
	StubComponents() []string
}

// Enumerated is implemented by properties whose thorough tier enumerates a finite table.
type Enumerated interface {
	// Cases returns the number of enumerated cases for the tier (0 = none).
	Cases(t Tier) int
	// RunCase executes enumerated case i.
	RunCase(i int) Result
	Exhaustive(t Tier) bool
}

// Inc bumps a stats counter.
func (r *Result) Inc(k string, n int) {
	if n == 0 {
		return
	}
	if r.Stats == nil {
		r.Stats = map[string]int{}
	}
	r.Stats[k] += n
}

var registry = map[string]Property{}
var order []string

// Register adds a property to the registry.
func Register(p Property) {
	if _, dup := registry[p.ID()]; dup {
		panic("duplicate property " + p.ID())
	}
	registry[p.ID()] = p
	order = append(order, p.ID())
}

// Lookup finds a property.
func Lookup(id string) (Property, bool) { p, ok := registry[id]; return p, ok }

// IDs lists registered property ids in registration order.
func IDs() []string { return append([]string(nil), order...) }

// SeedFor derives the tape seed of run i of property id under the global seed.
func SeedFor(seed uint64, id string, run int) uint64 {
	return tape.Mix(seed, tape.HashString(id), uint64(run))
}

// Hash64 is an incremental FNV-1a hasher for trace/key hashing.
type Hash64 uint64

// NewHash returns the FNV offset basis.
func NewHash() Hash64 { return 14695981039346656037 }

// Str mixes a string.
func (h Hash64) Str(s string) Hash64 {
	for i := 0; i < len(s); i++ {
		h ^= Hash64(s[i])
		h *= 1099511628211
	}
	h ^= 0xff
	h *= 1099511628211
	return h
}

// Int mixes an integer.
func (h Hash64) Int(v int) Hash64 {
	u := uint64(v)
	for i := 0; i < 8; i++ {
		h ^= Hash64(u & 0xff)
		h *= 1099511628211
		u >>= 8
	}
	return h
}
