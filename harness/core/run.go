package core

import (
	"bytes"
	"encoding/binary"
	"encoding/json"
	"flag"
	"fmt"
	"os"
	"os/exec"
	"path/filepath"
	"runtime"
	"sort"
	"strconv"
	"strings"
	"sync"
	"time"

	"verif/tape"
)

// Exit codes: 0 held, 1 violation, 2 machinery trouble (never a verdict).
const (
	ExitHeld      = 0
	ExitViolation = 1
	ExitTrouble   = 2
)

// VerifDir is where MANIFEST, evidence, replays and known findings live.
var VerifDir = "/verif"

// Stdout is where the machinery itself reports (the process's real stdout).
var Stdout = os.Stdout

// ReplayFile is the on-disk form of a minimised failing run.
type ReplayFile struct {
	Property string   `json:"property"`
	Seed     uint64   `json:"seed"`
	Run      int      `json:"run"`
	Case     int      `json:"case"` // >= 0 for enumerated cases, else -1
	Tape     []uint64 `json:"tape"`
	Script   any      `json:"script,omitempty"`
	Clause   string   `json:"clause"`
	Detail   string   `json:"detail"`
	History  any      `json:"history"`
	RepoHead string   `json:"repo_head"`
	Dirty    bool     `json:"repo_dirty"`
	Shrunk   string   `json:"shrunk"`
	Fatal    bool     `json:"fatal,omitempty"` // the run kills or stalls its process: replayed in a child process
}

// workerOut is what a worker hands back to the coordinator.
type workerOut struct {
	Evaluations  int            `json:"evaluations"`
	NonTrivial   int            `json:"nontrivial"`
	Stats        map[string]int `json:"stats"`
	Discards     map[string]int `json:"discards"`
	Statements   int64          `json:"statements"`
	Instructions int64          `json:"instructions"`
	Samples      []any          `json:"samples"`
	Violations   []string       `json:"violations"` // replay file paths
	Clauses      []string       `json:"clauses"`
	TraceXor     uint64         `json:"trace_xor"`
	TraceSum     uint64         `json:"trace_sum"`
	KeysFile     string         `json:"keys_file"`
	InterFile    string         `json:"inter_file"`
	WallS        float64        `json:"wall_s"`
}

func repoHead() (string, bool) {
	out, err := exec.Command("git", "-C", "/repo", "rev-parse", "HEAD").Output()
	head := strings.TrimSpace(string(out))
	if err != nil {
		head = "unknown"
	}
	st, _ := exec.Command("git", "-C", "/repo", "status", "--porcelain").Output()
	return head, len(strings.TrimSpace(string(st))) > 0
}

// runOne executes run i (random) or case i (enumerated) and returns result and the tape used.
func runOne(p Property, seed uint64, i int, enumerated bool) (Result, []uint64) {
	if enumerated {
		return p.(Enumerated).RunCase(i), nil
	}
	tp := tape.New(SeedFor(seed, p.ID(), i))
	r := p.Run(tp)
	testCrash(p.ID(), i, 0)
	return r, tp.Recorded()
}

// Shrink minimises entries while the same clause keeps failing.
// Shrinking is true while candidate tapes are being re-executed (properties may use
// cheaper watchdogs then; the final confirmation run is done with it false).
var Shrinking bool

func Shrink(p Property, entries []uint64, clause string, maxTries int) ([]uint64, Result, int) {
	tries := 0
	deadline := time.Now().Add(3 * time.Minute)
	Shrinking = true
	defer func() { Shrinking = false }()
	more := func() bool { return tries < maxTries && time.Now().Before(deadline) }
	fails := func(e []uint64) bool {
		if !more() {
			return false
		}
		tries++
		if curProgress != nil {
			curProgress.beat()
		}
		r := p.Run(tape.Replay(e))
		if r.Violation != nil && r.Violation.Clause == clause {
			return true
		}
		return false
	}
	if !fails(entries) {
		// not reproducible from the recorded tape: report as is
		return entries, Result{}, tries
	}
	cur := shrinkCore(entries, fails, more)
	// final confirmation run
	Shrinking = false
	r := p.Run(tape.Replay(cur))
	if r.Violation == nil || r.Violation.Clause != clause {
		return entries, Result{}, tries
	}
	return cur, r, tries
}

// shrinkCore minimises a failing tape: truncate, delete blocks, zero blocks, lower entries.
// fails must be true for entries on entry; more reports whether the budget allows another pass.
func shrinkCore(entries []uint64, fails func([]uint64) bool, more func() bool) []uint64 {
	cur := append([]uint64(nil), entries...)
	trim := func() {
		for len(cur) > 0 && cur[len(cur)-1] == 0 {
			cur = cur[:len(cur)-1]
		}
	}
	trim()
	improved := true
	for improved && more() {
		improved = false
		// truncate tail
		for n := len(cur) / 2; n >= 1; n /= 2 {
			for len(cur) >= n {
				cand := cur[:len(cur)-n]
				if fails(cand) {
					cur = append([]uint64(nil), cand...)
					improved = true
				} else {
					break
				}
			}
		}
		// delete blocks
		for n := len(cur) / 2; n >= 1; n /= 2 {
			for i := 0; i+n <= len(cur); {
				cand := append(append([]uint64(nil), cur[:i]...), cur[i+n:]...)
				if fails(cand) {
					cur = cand
					improved = true
				} else {
					i += n
				}
			}
		}
		// zero blocks, then lower single entries
		for n := 8; n >= 1; n /= 2 {
			for i := 0; i+n <= len(cur); i += n {
				nz := false
				for j := i; j < i+n; j++ {
					if cur[j] != 0 {
						nz = true
					}
				}
				if !nz {
					continue
				}
				cand := append([]uint64(nil), cur...)
				for j := i; j < i+n; j++ {
					cand[j] = 0
				}
				if fails(cand) {
					cur = cand
					improved = true
				}
			}
		}
		for i := 0; i < len(cur); i++ {
			for cur[i] > 0 {
				cand := append([]uint64(nil), cur...)
				cand[i] = cur[i] / 2
				if fails(cand) {
					cur = cand
					improved = true
					continue
				}
				cand[i] = cur[i] - 1
				if cur[i] > 1 && fails(cand) {
					cur = cand
					improved = true
					continue
				}
				break
			}
		}
		trim()
	}
	return cur
}

func writeReplay(p Property, seed uint64, run int, enumerated bool, entries []uint64, r Result, shrunk string) string {
	head, dirty := repoHead()
	rf := ReplayFile{Property: p.ID(), Seed: seed, Run: run, Case: -1, Tape: entries,
		Clause: r.Violation.Clause, Detail: r.Violation.Detail, History: r.Violation.History,
		RepoHead: head, Dirty: dirty, Shrunk: shrunk}
	if enumerated {
		rf.Case = run
	}
	return writeReplayFile(rf)
}

func writeReplayFile(rf ReplayFile) string {
	dir := filepath.Join(VerifDir, "replays")
	if d := os.Getenv("SIMCALC_REPLAYDIR"); d != "" {
		dir = d
	}
	os.MkdirAll(dir, 0o755)
	kind, n := "r", rf.Run
	if rf.Case >= 0 {
		kind, n = "c", rf.Case
	}
	path := filepath.Join(dir, fmt.Sprintf("%s-%d-%s%d.json", rf.Property, rf.Seed, kind, n))
	b, _ := json.MarshalIndent(rf, "", " ")
	if err := os.WriteFile(path, b, 0o644); err != nil {
		fmt.Fprintln(os.Stderr, "cannot write replay:", err)
	}
	return path
}

// worker executes the run indices congruent to w mod n.
func worker(p Property, tier Tier, seed uint64, w, n int, outPath string, runsOverride int, skip map[string]bool) {
	start := time.Now()
	prog := openProgress(outPath + ".prog")
	curProgress = prog
	out := workerOut{Stats: map[string]int{}, Discards: map[string]int{}}
	keys := newDistinct()
	inter := newDistinct()
	total := p.Runs(tier)
	if runsOverride > 0 {
		total = runsOverride
	}
	maxViol := 3
	do := func(i int, enumerated bool) bool {
		if skip[skipKey(i, enumerated)] {
			return true // this run killed or stalled an earlier incarnation of this worker; the coordinator reported it
		}
		prog.begin(i, enumerated)
		r, entries := runOne(p, seed, i, enumerated)
		out.Evaluations++
		out.Statements += int64(r.Statements)
		out.Instructions += r.Instructions
		for k, v := range r.Stats {
			out.Stats[k] += v
		}
		th := r.TraceHash ^ uint64(i)*0x9e3779b97f4a7c15
		out.TraceXor ^= th
		out.TraceSum += th
		if r.Discard != "" {
			out.Discards[r.Discard]++
			return true
		}
		if r.Interleaving != 0 {
			inter.add(r.Interleaving)
		}
		if r.NonTrivial {
			keys.add(r.Key)
		}
		if r.Sample != nil && len(out.Samples) < 3 && (r.NonTrivial || out.Evaluations > 50) {
			out.Samples = append(out.Samples, r.Sample)
		}
		if r.Violation != nil {
			shr := "not shrunk (enumerated case)"
			if !enumerated {
				// The unshrunk replay is on disk before minimisation starts: a candidate history that
				// kills this process must not lose the violation (the coordinator picks up <out>.pending).
				first := writeReplay(p, seed, i, enumerated, entries, r, "unshrunk: minimisation was cut short because a candidate history killed or stalled the worker process")
				pb, _ := json.Marshal(map[string]string{"path": first, "clause": r.Violation.Clause})
				os.WriteFile(outPath+".pending", pb, 0o644)
				before := len(entries)
				small, rr, tries := Shrink(p, entries, r.Violation.Clause, 3000)
				if rr.Violation != nil {
					entries, r = small, rr
					shr = fmt.Sprintf("tape %d -> %d entries in %d re-executions", before, len(small), tries)
				} else {
					shr = "could not re-execute from recorded tape (reported unshrunk)"
				}
			}
			path := writeReplay(p, seed, i, enumerated, entries, r, shr)
			os.Remove(outPath + ".pending")
			out.Violations = append(out.Violations, path)
			out.Clauses = append(out.Clauses, r.Violation.Clause)
			if len(out.Violations) >= maxViol {
				return false
			}
		}
		return true
	}
	if en, ok := p.(Enumerated); ok {
		cases := en.Cases(tier)
		for i := w; i < cases; i += n {
			if !do(i, true) {
				break
			}
		}
	}
	if len(out.Violations) < maxViol {
		for i := w; i < total; i += n {
			if !do(i, false) {
				break
			}
		}
	}
	prog.idle()
	out.NonTrivial = keys.estimate()
	out.KeysFile = outPath + ".keys"
	out.InterFile = outPath + ".inter"
	writeSet(out.KeysFile, keys)
	writeSet(out.InterFile, inter)
	out.WallS = time.Since(start).Seconds()
	b, _ := json.Marshal(out)
	if err := os.WriteFile(outPath, b, 0o644); err != nil {
		fmt.Fprintln(os.Stderr, "worker cannot write result:", err)
		os.Exit(ExitTrouble)
	}
}

func skipKey(i int, enumerated bool) string {
	if enumerated {
		return "c" + strconv.Itoa(i)
	}
	return "r" + strconv.Itoa(i)
}

// distinct counts distinct 64-bit keys in bounded memory (adaptive distinct sampling): it keeps the
// keys whose low `level` bits are zero; when more than distinctCap are held, level rises and the set
// is purged. The count is exact while level is 0 and an unbiased estimate (held << level) after.
// Sets from different workers merge by purging all of them to the highest level.
type distinct struct {
	level uint
	m     map[uint64]struct{}
}

const distinctCap = 3 << 20

func newDistinct() *distinct { return &distinct{m: map[uint64]struct{}{}} }

func (d *distinct) add(k uint64) {
	k = tape.Mix(k) // keys are hashes already; remix so that low bits are uniform whatever the hash
	if k&(1<<d.level-1) != 0 {
		return
	}
	d.m[k] = struct{}{}
	for len(d.m) > distinctCap {
		d.raise(d.level + 1)
	}
}

func (d *distinct) raise(level uint) {
	if level <= d.level {
		return
	}
	d.level = level
	for k := range d.m {
		if k&(1<<level-1) != 0 {
			delete(d.m, k)
		}
	}
}

func (d *distinct) estimate() int { return len(d.m) << d.level }

func (d *distinct) exact() bool { return d.level == 0 }

func writeSet(path string, d *distinct) {
	buf := make([]byte, 8, 8+8*len(d.m))
	binary.LittleEndian.PutUint64(buf, uint64(d.level))
	var tmp [8]byte
	for k := range d.m {
		binary.LittleEndian.PutUint64(tmp[:], k)
		buf = append(buf, tmp[:]...)
	}
	os.WriteFile(path, buf, 0o644)
}

func readSet(path string, into *distinct) {
	b, err := os.ReadFile(path)
	if err != nil || len(b) < 8 {
		return
	}
	into.raise(uint(binary.LittleEndian.Uint64(b)))
	mask := uint64(1)<<into.level - 1
	for i := 8; i+8 <= len(b); i += 8 {
		if k := binary.LittleEndian.Uint64(b[i:]); k&mask == 0 {
			into.m[k] = struct{}{}
		}
	}
	for len(into.m) > distinctCap {
		into.raise(into.level + 1)
	}
}

// Evidence mirrors EVIDENCE.schema.json.
type Evidence struct {
	PropertyID  string         `json:"property_id"`
	Tier        string         `json:"tier"`
	Seed        uint64         `json:"seed"`
	Level       string         `json:"level"`
	Coverage    map[string]any `json:"coverage"`
	Assumptions []string       `json:"assumptions"`
	WallS       float64        `json:"wall_s"`
	Violations  int            `json:"violations"`
}

// Check is the coordinator for one property and tier.
func Check(p Property, tier Tier, seed uint64, workers int, runsOverride int) int {
	start := time.Now()
	self, err := os.Executable()
	if err != nil {
		fmt.Fprintln(os.Stderr, "no executable path:", err)
		return ExitTrouble
	}
	fmt.Fprintf(Stdout, "check property=%s tier=%s seed=%d workers=%d\n", p.ID(), tier, seed, workers)

	// 1. known findings and fixed regressions (scripted histories)
	kfViol, kfLines, kfTrouble := replayKnownFindings(p)
	for _, l := range kfLines {
		fmt.Fprintln(Stdout, l)
	}
	if kfTrouble {
		return ExitTrouble
	}

	// 2. seeded search on worker processes
	tmp, err := os.MkdirTemp("", "simcalc-"+p.ID()+"-")
	if err != nil {
		fmt.Fprintln(os.Stderr, "mkdtemp:", err)
		return ExitTrouble
	}
	defer os.RemoveAll(tmp)
	type slot struct {
		out      string
		trouble  bool
		fatal    []string // replay paths of runs that killed or stalled the worker
		fclauses []string
	}
	slots := make([]*slot, workers)
	watchdog := 2 * time.Hour
	if tier == Quick {
		watchdog = 20 * time.Minute
	}
	deadline := time.Now().Add(watchdog)
	done := make(chan int, workers)
	// at most three worker deaths are attributed and minimised per check (each costs minutes);
	// slots whose worker dies after that stop quietly: the tree is already reported as broken.
	var attrMu sync.Mutex
	attributed := 0
	claimAttribution := func() bool {
		attrMu.Lock()
		defer attrMu.Unlock()
		if attributed >= 3 {
			return false
		}
		attributed++
		return true
	}
	for w := 0; w < workers; w++ {
		sl := &slot{out: filepath.Join(tmp, fmt.Sprintf("w%d.json", w))}
		slots[w] = sl
		go func(w int, sl *slot) {
			defer func() { done <- w }()
			var skips []string
			for attempt := 0; ; attempt++ {
				args := []string{"-prop", p.ID(), "-tier", string(tier), "-seed", strconv.FormatUint(seed, 10),
					"-worker", fmt.Sprintf("%d/%d", w, workers), "-out", sl.out}
				if runsOverride > 0 {
					args = append(args, "-runs", strconv.Itoa(runsOverride))
				}
				if len(skips) > 0 {
					args = append(args, "-skip", strings.Join(skips, ","))
				}
				os.Remove(sl.out + ".prog")
				cmd := exec.Command(self, args...)
				cmd.Stdout = os.Stderr
				werrb := &bytes.Buffer{}
				cmd.Stderr = &limitedWriter{w: werrb, n: 1 << 16} // crash dumps are reproduced and summarised by attributeCrash
				if os.Getenv("SIMCALC_WORKER_STDERR") != "" {
					cmd.Stderr = os.Stderr
				}
				cmd.Env = append(os.Environ(), "GOMAXPROCS=2", "GOTRACEBACK=single")
				if err := cmd.Start(); err != nil {
					fmt.Fprintln(os.Stderr, "cannot start worker:", err)
					sl.trouble = true
					return
				}
				exited := make(chan error, 1)
				go func() { exited <- cmd.Wait() }()
				var werr error
				hung := false
				lastBeat, lastChange := uint64(0), time.Now()
			wait:
				for {
					select {
					case werr = <-exited:
						break wait
					case <-time.After(3 * time.Second):
						if time.Now().After(deadline) {
							cmd.Process.Kill()
							<-exited
							fmt.Fprintln(os.Stderr, "watchdog: worker exceeded", watchdog)
							sl.trouble = true
							return
						}
						_, _, beat, _ := readProgress(sl.out + ".prog")
						if beat != lastBeat {
							lastBeat, lastChange = beat, time.Now()
						} else if time.Since(lastChange) > 2*childStall {
							cmd.Process.Kill()
							werr = <-exited
							hung = true
							break wait
						}
					}
				}
				if werr == nil && !hung {
					return
				}
				if !claimAttribution() {
					os.WriteFile(sl.out, []byte(`{"stats":{},"discards":{}}`), 0o644)
					return
				}
				i, enumerated, _, ok := readProgress(sl.out + ".prog")
				if pb, perr := os.ReadFile(sl.out + ".pending"); perr == nil && ok {
					var pend map[string]string
					if json.Unmarshal(pb, &pend) == nil && pend["path"] != "" {
						os.Remove(sl.out + ".pending")
						fmt.Fprintf(os.Stderr, "worker %d died or stalled while minimising the violation of run %s; reporting it unshrunk\n", w, skipKey(i, enumerated))
						sl.fatal = append(sl.fatal, pend["path"])
						sl.fclauses = append(sl.fclauses, pend["clause"])
						skips = append(skips, skipKey(i, enumerated))
						if len(sl.fatal) >= 2 {
							os.WriteFile(sl.out, []byte(`{"stats":{},"discards":{}}`), 0o644)
							return
						}
						continue
					}
				}
				if !ok {
					fmt.Fprintf(os.Stderr, "worker %d failed outside any run: %v\n%s\n", w, werr, trimTo(werrb.String(), 4000))
					sl.trouble = true
					return
				}
				fmt.Fprintf(os.Stderr, "worker %d died or stalled (%v, stalled=%v) in run %s; re-executing that run alone\n", w, werr, hung, skipKey(i, enumerated))
				path, clause := attributeCrash(self, p, seed, i, enumerated, tmp, hung)
				if path == "" {
					fmt.Fprintf(os.Stderr, "run %s completes in a fresh process: the worker failure is not attributable to one run (machinery trouble, no verdict)\n", skipKey(i, enumerated))
					sl.trouble = true
					return
				}
				sl.fatal = append(sl.fatal, path)
				sl.fclauses = append(sl.fclauses, clause)
				skips = append(skips, skipKey(i, enumerated))
				if len(sl.fatal) >= 2 {
					// enough evidence from this slot; finish its remaining indices is pointless on a tree this broken
					os.WriteFile(sl.out, []byte(`{"stats":{},"discards":{}}`), 0o644)
					return
				}
			}
		}(w, sl)
	}
	for i := 0; i < workers; i++ {
		<-done
	}
	var fatalPaths, fatalClauses []string
	for _, sl := range slots {
		if sl.trouble {
			return ExitTrouble
		}
		fatalPaths = append(fatalPaths, sl.fatal...)
		fatalClauses = append(fatalClauses, sl.fclauses...)
	}

	// 3. merge
	agg := workerOut{Stats: map[string]int{}, Discards: map[string]int{}}
	keys := newDistinct()
	inter := newDistinct()
	for _, sl := range slots {
		b, err := os.ReadFile(sl.out)
		if err != nil {
			fmt.Fprintln(os.Stderr, "missing worker result:", err)
			return ExitTrouble
		}
		var wo workerOut
		if err := json.Unmarshal(b, &wo); err != nil {
			fmt.Fprintln(os.Stderr, "bad worker result:", err)
			return ExitTrouble
		}
		agg.Evaluations += wo.Evaluations
		agg.Statements += wo.Statements
		agg.Instructions += wo.Instructions
		for k, v := range wo.Stats {
			agg.Stats[k] += v
		}
		for k, v := range wo.Discards {
			agg.Discards[k] += v
		}
		if len(agg.Samples) < 4 {
			agg.Samples = append(agg.Samples, wo.Samples...)
		}
		agg.Violations = append(agg.Violations, wo.Violations...)
		agg.Clauses = append(agg.Clauses, wo.Clauses...)
		agg.TraceXor ^= wo.TraceXor
		agg.TraceSum += wo.TraceSum
		readSet(wo.KeysFile, keys)
		readSet(wo.InterFile, inter)
	}
	agg.Violations = append(agg.Violations, fatalPaths...)
	agg.Clauses = append(agg.Clauses, fatalClauses...)
	if len(fatalPaths) > 0 {
		agg.Stats["crash.runs_that_killed_or_stalled_their_process"] += len(fatalPaths)
	}
	if len(agg.Samples) > 4 {
		agg.Samples = agg.Samples[:4]
	}
	wall := time.Since(start).Seconds()

	exhaustive := false
	cases := 0
	if en, ok := p.(Enumerated); ok {
		exhaustive = en.Exhaustive(tier)
		cases = en.Cases(tier)
	}
	discarded := 0
	for _, v := range agg.Discards {
		discarded += v
	}
	cov := map[string]any{
		"evaluations":             agg.Evaluations,
		"distinct_nontrivial":     keys.estimate(),
		"distinct_counting":       map[bool]string{true: "exact", false: fmt.Sprintf("estimated by distinct sampling (1 key in %d kept; bounded memory)", 1<<keys.level)}[keys.exact()],
		"rule":                    p.Rule(),
		"samples":                 agg.Samples,
		"exhaustive":              exhaustive,
		"enumerated_cases":        cases,
		"runs_per_hour":           int(float64(agg.Evaluations) / wall * 3600),
		"simulated_statements":    agg.Statements,
		"simulated_instructions":  agg.Instructions,
		"simulated_time_note":     "calc has no clock; simulated time is logical: statements submitted and VM instructions executed",
		"fault_counts_and_probes": sortedStats(agg.Stats),
		"distinct_interleavings":  inter.estimate(),
		"interleaving_measure":    "distinct hashes of the per-run sequence of executing-context ids (context-switch trace) seen by the step hook",
		"discarded_runs":          agg.Discards,
		"discarded_total":         discarded,
		"real_components":         p.RealComponents(),
		"stub_components":         p.StubComponents(),
		"known_findings_replayed": len(kfLines),
		"trace_digest":            fmt.Sprintf("%016x-%016x", agg.TraceXor, agg.TraceSum),
		"workers":                 workers,
	}
	if len(agg.Samples) == 0 {
		cov["samples"] = []any{"(no sample recorded)"}
	}
	ev := Evidence{PropertyID: p.ID(), Tier: string(tier), Seed: seed, Level: p.Level(), Coverage: cov,
		Assumptions: p.Assumptions(), WallS: wall, Violations: len(agg.Violations) + kfViol}
	os.MkdirAll(filepath.Join(VerifDir, "evidence"), 0o755)
	b, _ := json.MarshalIndent(ev, "", " ")
	evPath := filepath.Join(VerifDir, "evidence", p.ID()+".json")
	if os.Getenv("SIMCALC_NOEVIDENCE") != "" { // sensitivity experiments against scratch copies must not overwrite evidence
		evPath = os.DevNull
	}
	if err := os.WriteFile(evPath, b, 0o644); err != nil {
		fmt.Fprintln(os.Stderr, "cannot write evidence:", err)
		return ExitTrouble
	}

	fmt.Fprintf(Stdout, "evaluations=%d distinct_nontrivial=%d interleavings=%d discarded=%d statements=%d instructions=%d wall=%.1fs digest=%016x-%016x\n",
		agg.Evaluations, keys.estimate(), inter.estimate(), discarded, agg.Statements, agg.Instructions, wall, agg.TraceXor, agg.TraceSum)
	for _, kv := range sortedStats(agg.Stats) {
		fmt.Fprintf(Stdout, "  %s\n", kv)
	}
	seen := map[string]bool{}
	for i, v := range agg.Violations {
		if seen[agg.Clauses[i]] {
			continue // one line per distinct clause; all replay files are kept
		}
		seen[agg.Clauses[i]] = true
		fmt.Fprintf(Stdout, "VIOLATION property=%s replay=%s\n", p.ID(), v)
	}
	if len(agg.Violations)+kfViol > 0 {
		return ExitViolation
	}
	fmt.Fprintf(Stdout, "HELD property=%s\n", p.ID())
	return ExitHeld
}

func sortedStats(m map[string]int) []string {
	ks := make([]string, 0, len(m))
	for k := range m {
		ks = append(ks, k)
	}
	sort.Strings(ks)
	out := make([]string, 0, len(ks))
	for _, k := range ks {
		out = append(out, fmt.Sprintf("%s=%d", k, m[k]))
	}
	return out
}

// Replay re-executes a replay file.
func Replay(path string) int {
	b, err := os.ReadFile(path)
	if err != nil {
		fmt.Fprintln(os.Stderr, err)
		return ExitTrouble
	}
	var rf ReplayFile
	if err := json.Unmarshal(b, &rf); err != nil {
		fmt.Fprintln(os.Stderr, err)
		return ExitTrouble
	}
	p, ok := Lookup(rf.Property)
	if !ok {
		fmt.Fprintln(os.Stderr, "unknown property", rf.Property)
		return ExitTrouble
	}
	if rf.Fatal {
		return replayFatal(rf, path)
	}
	var r Result
	switch {
	case rf.Script != nil:
		sc, ok := p.(Scripted)
		if !ok {
			fmt.Fprintln(os.Stderr, "property has no scripted replay")
			return ExitTrouble
		}
		raw, _ := json.Marshal(rf.Script)
		r = sc.RunScript(raw)
	case rf.Case >= 0:
		r = p.(Enumerated).RunCase(rf.Case)
	default:
		r = p.Run(tape.Replay(rf.Tape))
	}
	if r.Violation != nil {
		fmt.Fprintf(Stdout, "clause: %s\ndetail: %s\n", r.Violation.Clause, r.Violation.Detail)
		h, _ := json.MarshalIndent(r.Violation.History, "", " ")
		fmt.Fprintf(Stdout, "history: %s\n", h)
		fmt.Fprintf(Stdout, "VIOLATION property=%s replay=%s\n", rf.Property, path)
		return ExitViolation
	}
	fmt.Fprintf(Stdout, "replay passes: property=%s held on this history\n", rf.Property)
	return ExitHeld
}

// Main is the entry point shared by coordinator and workers.
func Main(setupWorker func()) {
	prop := flag.String("prop", "", "property id")
	tier := flag.String("tier", "quick", "quick|thorough")
	seedF := flag.String("seed", "", "seed (default $VERIF_SEED or 1)")
	workerF := flag.String("worker", "", "i/n (internal)")
	outF := flag.String("out", "", "worker result path (internal)")
	replay := flag.String("replay", "", "replay file")
	runs := flag.Int("runs", 0, "override number of runs")
	workers := flag.Int("workers", 0, "worker processes (default min(16, NumCPU))")
	selftest := flag.Bool("selftest", false, "determinism selftest")
	list := flag.Bool("list", false, "list properties")
	single := flag.Int("single", -1, "run one index alone, journalled (internal)")
	enumF := flag.Bool("enum", false, "with -single: the index is an enumerated case (internal)")
	journal := flag.String("journal", "", "journal base path (internal)")
	childTape := flag.String("childtape", "", "execute the tape in this file (internal)")
	skipF := flag.String("skip", "", "comma-separated run keys to skip (internal)")
	flag.Parse()
	limitMemory()
	if d := os.Getenv("SIMCALC_VERIFDIR"); d != "" {
		VerifDir = d
	}

	if *list {
		for _, id := range IDs() {
			fmt.Println(id)
		}
		return
	}
	seed := uint64(1)
	if s := os.Getenv("VERIF_SEED"); s != "" {
		if v, err := strconv.ParseUint(s, 10, 64); err == nil {
			seed = v
		} else if v, err := strconv.ParseInt(s, 10, 64); err == nil {
			seed = uint64(v)
		}
	}
	if *seedF != "" {
		v, err := strconv.ParseUint(*seedF, 10, 64)
		if err != nil {
			fmt.Fprintln(os.Stderr, "bad seed")
			os.Exit(ExitTrouble)
		}
		seed = v
	}
	if t := os.Getenv("VERIF_TIER"); t != "" && !flagSet("tier") {
		*tier = t
	}
	nw := *workers
	if nw <= 0 {
		nw = runtime.NumCPU()
		if nw > 16 {
			nw = 16
		}
	}

	if *replay != "" {
		setupWorker()
		os.Exit(Replay(*replay))
	}
	if *selftest {
		setupWorker()
		os.Exit(SelfTest(seed))
	}
	p, ok := Lookup(*prop)
	if !ok {
		fmt.Fprintln(os.Stderr, "unknown property:", *prop)
		os.Exit(ExitTrouble)
	}
	if *single >= 0 {
		setupWorker()
		SingleMain(p, seed, *single, *enumF, *journal)
		return
	}
	if *childTape != "" {
		setupWorker()
		TapeMain(p, *childTape, *journal)
		return
	}
	if *workerF != "" {
		var w, n int
		if _, err := fmt.Sscanf(*workerF, "%d/%d", &w, &n); err != nil || n <= 0 {
			fmt.Fprintln(os.Stderr, "bad -worker")
			os.Exit(ExitTrouble)
		}
		setupWorker()
		skip := map[string]bool{}
		for _, k := range strings.Split(*skipF, ",") {
			if k != "" {
				skip[k] = true
			}
		}
		worker(p, Tier(*tier), seed, w, n, *outF, *runs, skip)
		return
	}
	setupWorker() // the coordinator replays known findings in-process
	os.Exit(Check(p, Tier(*tier), seed, nw, *runs))
}

func flagSet(name string) bool {
	set := false
	flag.Visit(func(f *flag.Flag) {
		if f.Name == name {
			set = true
		}
	})
	return set
}

// SelfTest runs a sample of seeds twice per property in-process and compares trace hashes.
func SelfTest(seed uint64) int {
	bad := 0
	for _, id := range IDs() {
		p := registry[id]
		n := 48
		for i := 0; i < n; i++ {
			a := p.Run(tape.New(SeedFor(seed, id, i)))
			b := p.Run(tape.New(SeedFor(seed, id, i)))
			if a.TraceHash != b.TraceHash || a.Key != b.Key || (a.Violation == nil) != (b.Violation == nil) {
				fmt.Fprintf(Stdout, "NONDETERMINISM property=%s run=%d %x vs %x\n", id, i, a.TraceHash, b.TraceHash)
				bad++
			}
		}
	}
	if bad > 0 {
		return ExitTrouble
	}
	fmt.Fprintln(Stdout, "selftest ok")
	return ExitHeld
}
