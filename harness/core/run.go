package core

import (
	"encoding/binary"
	"encoding/json"
	"flag"
	"fmt"
	"os"
	"os/exec"
	"path/filepath"
	"runtime"
	"sort"
	"strconv"
	"strings"
	"time"

	"verif/tape"
)

// Exit codes: 0 held, 1 violation, 2 machinery trouble (never a verdict).
const (
	ExitHeld      = 0
	ExitViolation = 1
	ExitTrouble   = 2
)

// VerifDir is where MANIFEST, evidence, replays and known findings live.
var VerifDir = "/verif"

// Stdout is where the machinery itself reports (the process's real stdout).
var Stdout = os.Stdout

// ReplayFile is the on-disk form of a minimised failing run.
type ReplayFile struct {
	Property string   `json:"property"`
	Seed     uint64   `json:"seed"`
	Run      int      `json:"run"`
	Case     int      `json:"case"` // >= 0 for enumerated cases, else -1
	Tape     []uint64 `json:"tape"`
	Script   any      `json:"script,omitempty"`
	Clause   string   `json:"clause"`
	Detail   string   `json:"detail"`
	History  any      `json:"history"`
	RepoHead string   `json:"repo_head"`
	Dirty    bool     `json:"repo_dirty"`
	Shrunk   string   `json:"shrunk"`
}

// workerOut is what a worker hands back to the coordinator.
type workerOut struct {
	Evaluations  int            `json:"evaluations"`
	NonTrivial   int            `json:"nontrivial"`
	Stats        map[string]int `json:"stats"`
	Discards     map[string]int `json:"discards"`
	Statements   int64          `json:"statements"`
	Instructions int64          `json:"instructions"`
	Samples      []any          `json:"samples"`
	Violations   []string       `json:"violations"` // replay file paths
	Clauses      []string       `json:"clauses"`
	TraceXor     uint64         `json:"trace_xor"`
	TraceSum     uint64         `json:"trace_sum"`
	KeysFile     string         `json:"keys_file"`
	InterFile    string         `json:"inter_file"`
	WallS        float64        `json:"wall_s"`
}

func repoHead() (string, bool) {
	out, err := exec.Command("git", "-C", "/repo", "rev-parse", "HEAD").Output()
	head := strings.TrimSpace(string(out))
	if err != nil {
		head = "unknown"
	}
	st, _ := exec.Command("git", "-C", "/repo", "status", "--porcelain").Output()
	return head, len(strings.TrimSpace(string(st))) > 0
}

// runOne executes run i (random) or case i (enumerated) and returns result and the tape used.
func runOne(p Property, seed uint64, i int, enumerated bool) (Result, []uint64) {
	if enumerated {
		return p.(Enumerated).RunCase(i), nil
	}
	tp := tape.New(SeedFor(seed, p.ID(), i))
	r := p.Run(tp)
	return r, tp.Recorded()
}

// Shrink minimises entries while the same clause keeps failing.
// Shrinking is true while candidate tapes are being re-executed (properties may use
// cheaper watchdogs then; the final confirmation run is done with it false).
var Shrinking bool

func Shrink(p Property, entries []uint64, clause string, maxTries int) ([]uint64, Result, int) {
	tries := 0
	deadline := time.Now().Add(3 * time.Minute)
	Shrinking = true
	defer func() { Shrinking = false }()
	fails := func(e []uint64) bool {
		if tries >= maxTries || time.Now().After(deadline) {
			return false
		}
		tries++
		r := p.Run(tape.Replay(e))
		if r.Violation != nil && r.Violation.Clause == clause {
			return true
		}
		return false
	}
	cur := append([]uint64(nil), entries...)
	if !fails(cur) {
		// not reproducible from the recorded tape: report as is
		return entries, Result{}, tries
	}
	trim := func() {
		for len(cur) > 0 && cur[len(cur)-1] == 0 {
			cur = cur[:len(cur)-1]
		}
	}
	trim()
	improved := true
	for improved && tries < maxTries {
		improved = false
		// truncate tail
		for n := len(cur) / 2; n >= 1; n /= 2 {
			for len(cur) >= n {
				cand := cur[:len(cur)-n]
				if fails(cand) {
					cur = append([]uint64(nil), cand...)
					improved = true
				} else {
					break
				}
			}
		}
		// delete blocks
		for n := len(cur) / 2; n >= 1; n /= 2 {
			for i := 0; i+n <= len(cur); {
				cand := append(append([]uint64(nil), cur[:i]...), cur[i+n:]...)
				if fails(cand) {
					cur = cand
					improved = true
				} else {
					i += n
				}
			}
		}
		// zero blocks, then lower single entries
		for n := 8; n >= 1; n /= 2 {
			for i := 0; i+n <= len(cur); i += n {
				nz := false
				for j := i; j < i+n; j++ {
					if cur[j] != 0 {
						nz = true
					}
				}
				if !nz {
					continue
				}
				cand := append([]uint64(nil), cur...)
				for j := i; j < i+n; j++ {
					cand[j] = 0
				}
				if fails(cand) {
					cur = cand
					improved = true
				}
			}
		}
		for i := 0; i < len(cur); i++ {
			for cur[i] > 0 {
				cand := append([]uint64(nil), cur...)
				cand[i] = cur[i] / 2
				if fails(cand) {
					cur = cand
					improved = true
					continue
				}
				cand[i] = cur[i] - 1
				if cur[i] > 1 && fails(cand) {
					cur = cand
					improved = true
					continue
				}
				break
			}
		}
		trim()
	}
	// final confirmation run
	Shrinking = false
	r := p.Run(tape.Replay(cur))
	if r.Violation == nil || r.Violation.Clause != clause {
		return entries, Result{}, tries
	}
	return cur, r, tries
}

func writeReplay(p Property, seed uint64, run int, enumerated bool, entries []uint64, r Result, shrunk string) string {
	head, dirty := repoHead()
	rf := ReplayFile{Property: p.ID(), Seed: seed, Run: run, Case: -1, Tape: entries,
		Clause: r.Violation.Clause, Detail: r.Violation.Detail, History: r.Violation.History,
		RepoHead: head, Dirty: dirty, Shrunk: shrunk}
	if enumerated {
		rf.Case = run
	}
	dir := filepath.Join(VerifDir, "replays")
	if d := os.Getenv("SIMCALC_REPLAYDIR"); d != "" {
		dir = d
	}
	os.MkdirAll(dir, 0o755)
	kind := "r"
	if enumerated {
		kind = "c"
	}
	path := filepath.Join(dir, fmt.Sprintf("%s-%d-%s%d.json", p.ID(), seed, kind, run))
	b, _ := json.MarshalIndent(rf, "", " ")
	if err := os.WriteFile(path, b, 0o644); err != nil {
		fmt.Fprintln(os.Stderr, "cannot write replay:", err)
	}
	return path
}

// worker executes the run indices congruent to w mod n.
func worker(p Property, tier Tier, seed uint64, w, n int, outPath string, runsOverride int) {
	start := time.Now()
	out := workerOut{Stats: map[string]int{}, Discards: map[string]int{}}
	keys := map[uint64]struct{}{}
	inter := map[uint64]struct{}{}
	total := p.Runs(tier)
	if runsOverride > 0 {
		total = runsOverride
	}
	maxViol := 3
	do := func(i int, enumerated bool) bool {
		r, entries := runOne(p, seed, i, enumerated)
		out.Evaluations++
		out.Statements += int64(r.Statements)
		out.Instructions += r.Instructions
		for k, v := range r.Stats {
			out.Stats[k] += v
		}
		th := r.TraceHash ^ uint64(i)*0x9e3779b97f4a7c15
		out.TraceXor ^= th
		out.TraceSum += th
		if r.Discard != "" {
			out.Discards[r.Discard]++
			return true
		}
		if r.Interleaving != 0 {
			inter[r.Interleaving] = struct{}{}
		}
		if r.NonTrivial {
			if _, seen := keys[r.Key]; !seen {
				keys[r.Key] = struct{}{}
			}
		}
		if r.Sample != nil && len(out.Samples) < 3 && (r.NonTrivial || out.Evaluations > 50) {
			out.Samples = append(out.Samples, r.Sample)
		}
		if r.Violation != nil {
			shr := "not shrunk (enumerated case)"
			if !enumerated {
				before := len(entries)
				small, rr, tries := Shrink(p, entries, r.Violation.Clause, 3000)
				if rr.Violation != nil {
					entries, r = small, rr
					shr = fmt.Sprintf("tape %d -> %d entries in %d re-executions", before, len(small), tries)
				} else {
					shr = "could not re-execute from recorded tape (reported unshrunk)"
				}
			}
			path := writeReplay(p, seed, i, enumerated, entries, r, shr)
			out.Violations = append(out.Violations, path)
			out.Clauses = append(out.Clauses, r.Violation.Clause)
			if len(out.Violations) >= maxViol {
				return false
			}
		}
		return true
	}
	if en, ok := p.(Enumerated); ok {
		cases := en.Cases(tier)
		for i := w; i < cases; i += n {
			if !do(i, true) {
				break
			}
		}
	}
	if len(out.Violations) < maxViol {
		for i := w; i < total; i += n {
			if !do(i, false) {
				break
			}
		}
	}
	out.NonTrivial = len(keys)
	out.KeysFile = outPath + ".keys"
	out.InterFile = outPath + ".inter"
	writeSet(out.KeysFile, keys)
	writeSet(out.InterFile, inter)
	out.WallS = time.Since(start).Seconds()
	b, _ := json.Marshal(out)
	if err := os.WriteFile(outPath, b, 0o644); err != nil {
		fmt.Fprintln(os.Stderr, "worker cannot write result:", err)
		os.Exit(ExitTrouble)
	}
}

func writeSet(path string, set map[uint64]struct{}) {
	buf := make([]byte, 0, 8*len(set))
	var tmp [8]byte
	for k := range set {
		binary.LittleEndian.PutUint64(tmp[:], k)
		buf = append(buf, tmp[:]...)
	}
	os.WriteFile(path, buf, 0o644)
}

func readSet(path string, into map[uint64]struct{}) {
	b, err := os.ReadFile(path)
	if err != nil {
		return
	}
	for i := 0; i+8 <= len(b); i += 8 {
		into[binary.LittleEndian.Uint64(b[i:])] = struct{}{}
	}
}

// Evidence mirrors EVIDENCE.schema.json.
type Evidence struct {
	PropertyID  string         `json:"property_id"`
	Tier        string         `json:"tier"`
	Seed        uint64         `json:"seed"`
	Level       string         `json:"level"`
	Coverage    map[string]any `json:"coverage"`
	Assumptions []string       `json:"assumptions"`
	WallS       float64        `json:"wall_s"`
	Violations  int            `json:"violations"`
}

// Check is the coordinator for one property and tier.
func Check(p Property, tier Tier, seed uint64, workers int, runsOverride int) int {
	start := time.Now()
	self, err := os.Executable()
	if err != nil {
		fmt.Fprintln(os.Stderr, "no executable path:", err)
		return ExitTrouble
	}
	fmt.Fprintf(Stdout, "check property=%s tier=%s seed=%d workers=%d\n", p.ID(), tier, seed, workers)

	// 1. known findings and fixed regressions (scripted histories)
	kfViol, kfLines, kfTrouble := replayKnownFindings(p)
	for _, l := range kfLines {
		fmt.Fprintln(Stdout, l)
	}
	if kfTrouble {
		return ExitTrouble
	}

	// 2. seeded search on worker processes
	tmp, err := os.MkdirTemp("", "simcalc-"+p.ID()+"-")
	if err != nil {
		fmt.Fprintln(os.Stderr, "mkdtemp:", err)
		return ExitTrouble
	}
	defer os.RemoveAll(tmp)
	type proc struct {
		cmd *exec.Cmd
		out string
	}
	procs := make([]proc, workers)
	for w := 0; w < workers; w++ {
		outPath := filepath.Join(tmp, fmt.Sprintf("w%d.json", w))
		args := []string{"-prop", p.ID(), "-tier", string(tier), "-seed", strconv.FormatUint(seed, 10),
			"-worker", fmt.Sprintf("%d/%d", w, workers), "-out", outPath}
		if runsOverride > 0 {
			args = append(args, "-runs", strconv.Itoa(runsOverride))
		}
		cmd := exec.Command(self, args...)
		cmd.Stdout = os.Stderr
		cmd.Stderr = os.Stderr
		cmd.Env = append(os.Environ(), "GOMAXPROCS=2")
		if err := cmd.Start(); err != nil {
			fmt.Fprintln(os.Stderr, "cannot start worker:", err)
			return ExitTrouble
		}
		procs[w] = proc{cmd, outPath}
	}
	watchdog := 2 * time.Hour
	if tier == Quick {
		watchdog = 20 * time.Minute
	}
	done := make(chan error, workers)
	for _, pr := range procs {
		pr := pr
		go func() { done <- pr.cmd.Wait() }()
	}
	trouble := false
	timer := time.NewTimer(watchdog)
	for i := 0; i < workers; i++ {
		select {
		case err := <-done:
			if err != nil {
				fmt.Fprintln(os.Stderr, "worker failed:", err)
				trouble = true
			}
		case <-timer.C:
			fmt.Fprintln(os.Stderr, "watchdog: workers exceeded", watchdog)
			for _, pr := range procs {
				pr.cmd.Process.Kill()
			}
			return ExitTrouble
		}
	}
	if trouble {
		return ExitTrouble
	}

	// 3. merge
	agg := workerOut{Stats: map[string]int{}, Discards: map[string]int{}}
	keys := map[uint64]struct{}{}
	inter := map[uint64]struct{}{}
	for _, pr := range procs {
		b, err := os.ReadFile(pr.out)
		if err != nil {
			fmt.Fprintln(os.Stderr, "missing worker result:", err)
			return ExitTrouble
		}
		var wo workerOut
		if err := json.Unmarshal(b, &wo); err != nil {
			fmt.Fprintln(os.Stderr, "bad worker result:", err)
			return ExitTrouble
		}
		agg.Evaluations += wo.Evaluations
		agg.Statements += wo.Statements
		agg.Instructions += wo.Instructions
		for k, v := range wo.Stats {
			agg.Stats[k] += v
		}
		for k, v := range wo.Discards {
			agg.Discards[k] += v
		}
		if len(agg.Samples) < 4 {
			agg.Samples = append(agg.Samples, wo.Samples...)
		}
		agg.Violations = append(agg.Violations, wo.Violations...)
		agg.Clauses = append(agg.Clauses, wo.Clauses...)
		agg.TraceXor ^= wo.TraceXor
		agg.TraceSum += wo.TraceSum
		readSet(wo.KeysFile, keys)
		readSet(wo.InterFile, inter)
	}
	if len(agg.Samples) > 4 {
		agg.Samples = agg.Samples[:4]
	}
	wall := time.Since(start).Seconds()

	exhaustive := false
	cases := 0
	if en, ok := p.(Enumerated); ok {
		exhaustive = en.Exhaustive(tier)
		cases = en.Cases(tier)
	}
	discarded := 0
	for _, v := range agg.Discards {
		discarded += v
	}
	cov := map[string]any{
		"evaluations":            agg.Evaluations,
		"distinct_nontrivial":    len(keys),
		"rule":                   p.Rule(),
		"samples":                agg.Samples,
		"exhaustive":             exhaustive,
		"enumerated_cases":       cases,
		"runs_per_hour":          int(float64(agg.Evaluations) / wall * 3600),
		"simulated_statements":   agg.Statements,
		"simulated_instructions": agg.Instructions,
		"simulated_time_note":    "calc has no clock; simulated time is logical: statements submitted and VM instructions executed",
		"fault_counts_and_probes": sortedStats(agg.Stats),
		"distinct_interleavings": len(inter),
		"interleaving_measure":   "distinct hashes of the per-run sequence of executing-context ids (context-switch trace) seen by the step hook",
		"discarded_runs":         agg.Discards,
		"discarded_total":        discarded,
		"real_components":        p.RealComponents(),
		"stub_components":        p.StubComponents(),
		"known_findings_replayed": len(kfLines),
		"trace_digest":           fmt.Sprintf("%016x-%016x", agg.TraceXor, agg.TraceSum),
		"workers":                workers,
	}
	if len(agg.Samples) == 0 {
		cov["samples"] = []any{"(no sample recorded)"}
	}
	ev := Evidence{PropertyID: p.ID(), Tier: string(tier), Seed: seed, Level: p.Level(), Coverage: cov,
		Assumptions: p.Assumptions(), WallS: wall, Violations: len(agg.Violations) + kfViol}
	os.MkdirAll(filepath.Join(VerifDir, "evidence"), 0o755)
	b, _ := json.MarshalIndent(ev, "", " ")
	evPath := filepath.Join(VerifDir, "evidence", p.ID()+".json")
	if os.Getenv("SIMCALC_NOEVIDENCE") != "" { // sensitivity experiments against scratch copies must not overwrite evidence
		evPath = os.DevNull
	}
	if err := os.WriteFile(evPath, b, 0o644); err != nil {
		fmt.Fprintln(os.Stderr, "cannot write evidence:", err)
		return ExitTrouble
	}

	fmt.Fprintf(Stdout, "evaluations=%d distinct_nontrivial=%d interleavings=%d discarded=%d statements=%d instructions=%d wall=%.1fs digest=%016x-%016x\n",
		agg.Evaluations, len(keys), len(inter), discarded, agg.Statements, agg.Instructions, wall, agg.TraceXor, agg.TraceSum)
	for _, kv := range sortedStats(agg.Stats) {
		fmt.Fprintf(Stdout, "  %s\n", kv)
	}
	seen := map[string]bool{}
	for i, v := range agg.Violations {
		if seen[agg.Clauses[i]] {
			continue // one line per distinct clause; all replay files are kept
		}
		seen[agg.Clauses[i]] = true
		fmt.Fprintf(Stdout, "VIOLATION property=%s replay=%s\n", p.ID(), v)
	}
	if len(agg.Violations)+kfViol > 0 {
		return ExitViolation
	}
	fmt.Fprintf(Stdout, "HELD property=%s\n", p.ID())
	return ExitHeld
}

func sortedStats(m map[string]int) []string {
	ks := make([]string, 0, len(m))
	for k := range m {
		ks = append(ks, k)
	}
	sort.Strings(ks)
	out := make([]string, 0, len(ks))
	for _, k := range ks {
		out = append(out, fmt.Sprintf("%s=%d", k, m[k]))
	}
	return out
}

// Replay re-executes a replay file.
func Replay(path string) int {
	b, err := os.ReadFile(path)
	if err != nil {
		fmt.Fprintln(os.Stderr, err)
		return ExitTrouble
	}
	var rf ReplayFile
	if err := json.Unmarshal(b, &rf); err != nil {
		fmt.Fprintln(os.Stderr, err)
		return ExitTrouble
	}
	p, ok := Lookup(rf.Property)
	if !ok {
		fmt.Fprintln(os.Stderr, "unknown property", rf.Property)
		return ExitTrouble
	}
	var r Result
	switch {
	case rf.Script != nil:
		sc, ok := p.(Scripted)
		if !ok {
			fmt.Fprintln(os.Stderr, "property has no scripted replay")
			return ExitTrouble
		}
		raw, _ := json.Marshal(rf.Script)
		r = sc.RunScript(raw)
	case rf.Case >= 0:
		r = p.(Enumerated).RunCase(rf.Case)
	default:
		r = p.Run(tape.Replay(rf.Tape))
	}
	if r.Violation != nil {
		fmt.Fprintf(Stdout, "clause: %s\ndetail: %s\n", r.Violation.Clause, r.Violation.Detail)
		h, _ := json.MarshalIndent(r.Violation.History, "", " ")
		fmt.Fprintf(Stdout, "history: %s\n", h)
		fmt.Fprintf(Stdout, "VIOLATION property=%s replay=%s\n", rf.Property, path)
		return ExitViolation
	}
	fmt.Fprintf(Stdout, "replay passes: property=%s held on this history\n", rf.Property)
	return ExitHeld
}

// Main is the entry point shared by coordinator and workers.
func Main(setupWorker func()) {
	prop := flag.String("prop", "", "property id")
	tier := flag.String("tier", "quick", "quick|thorough")
	seedF := flag.String("seed", "", "seed (default $VERIF_SEED or 1)")
	workerF := flag.String("worker", "", "i/n (internal)")
	outF := flag.String("out", "", "worker result path (internal)")
	replay := flag.String("replay", "", "replay file")
	runs := flag.Int("runs", 0, "override number of runs")
	workers := flag.Int("workers", 0, "worker processes (default min(16, NumCPU))")
	selftest := flag.Bool("selftest", false, "determinism selftest")
	list := flag.Bool("list", false, "list properties")
	flag.Parse()

	if *list {
		for _, id := range IDs() {
			fmt.Println(id)
		}
		return
	}
	seed := uint64(1)
	if s := os.Getenv("VERIF_SEED"); s != "" {
		if v, err := strconv.ParseUint(s, 10, 64); err == nil {
			seed = v
		} else if v, err := strconv.ParseInt(s, 10, 64); err == nil {
			seed = uint64(v)
		}
	}
	if *seedF != "" {
		v, err := strconv.ParseUint(*seedF, 10, 64)
		if err != nil {
			fmt.Fprintln(os.Stderr, "bad seed")
			os.Exit(ExitTrouble)
		}
		seed = v
	}
	if t := os.Getenv("VERIF_TIER"); t != "" && !flagSet("tier") {
		*tier = t
	}
	nw := *workers
	if nw <= 0 {
		nw = runtime.NumCPU()
		if nw > 16 {
			nw = 16
		}
	}

	if *replay != "" {
		setupWorker()
		os.Exit(Replay(*replay))
	}
	if *selftest {
		setupWorker()
		os.Exit(SelfTest(seed))
	}
	p, ok := Lookup(*prop)
	if !ok {
		fmt.Fprintln(os.Stderr, "unknown property:", *prop)
		os.Exit(ExitTrouble)
	}
	if *workerF != "" {
		var w, n int
		if _, err := fmt.Sscanf(*workerF, "%d/%d", &w, &n); err != nil || n <= 0 {
			fmt.Fprintln(os.Stderr, "bad -worker")
			os.Exit(ExitTrouble)
		}
		setupWorker()
		worker(p, Tier(*tier), seed, w, n, *outF, *runs)
		return
	}
	setupWorker() // the coordinator replays known findings in-process
	os.Exit(Check(p, Tier(*tier), seed, nw, *runs))
}

func flagSet(name string) bool {
	set := false
	flag.Visit(func(f *flag.Flag) {
		if f.Name == name {
			set = true
		}
	})
	return set
}

// SelfTest runs a sample of seeds twice per property in-process and compares trace hashes.
func SelfTest(seed uint64) int {
	bad := 0
	for _, id := range IDs() {
		p := registry[id]
		n := 48
		for i := 0; i < n; i++ {
			a := p.Run(tape.New(SeedFor(seed, id, i)))
			b := p.Run(tape.New(SeedFor(seed, id, i)))
			if a.TraceHash != b.TraceHash || a.Key != b.Key || (a.Violation == nil) != (b.Violation == nil) {
				fmt.Fprintf(Stdout, "NONDETERMINISM property=%s run=%d %x vs %x\n", id, i, a.TraceHash, b.TraceHash)
				bad++
			}
		}
	}
	if bad > 0 {
		return ExitTrouble
	}
	fmt.Fprintln(Stdout, "selftest ok")
	return ExitHeld
}
