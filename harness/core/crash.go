package core

// Crash and hang attribution.
//
// A Go panic inside calc is recovered by the session driver and reported as an
// ordinary violation. Two failure shapes cannot be recovered in-process: a Go
// fatal error (stack overflow from unbounded recursion in real code, out of
// memory, concurrent map access) and a spin in Go code that never reaches the
// VM's instruction hook. Both kill or stall the worker. The coordinator then
//
//  1. reads, from a small memory-mapped progress file, which run the worker
//     was executing,
//  2. re-executes exactly that run alone in a child process with the choice
//     tape and the submitted statements journalled to disk as they happen,
//  3. if the child dies or stalls again, minimises the journalled tape with
//     one child process per candidate and reports the run as a VIOLATION
//     (clause fatal-crash or hang) whose replay file is re-executed in a child
//     process too; if the child survives, the failure is not attributable to
//     one run and the check ends with exit status 2 (trouble), never 1,
//  4. restarts the worker with that run index skipped.

import (
	"bytes"
	"encoding/binary"
	"encoding/json"
	"fmt"
	"os"
	"os/exec"
	"strconv"
	"strings"
	"syscall"
	"time"

	"verif/tape"
)

// ---------------------------------------------------------------- progress file

type progress struct{ mem []byte }

func openProgress(path string) *progress {
	f, err := os.OpenFile(path, os.O_RDWR|os.O_CREATE, 0o644)
	if err != nil {
		return &progress{mem: make([]byte, 24)}
	}
	defer f.Close()
	if err := f.Truncate(24); err != nil {
		return &progress{mem: make([]byte, 24)}
	}
	m, err := syscall.Mmap(int(f.Fd()), 0, 24, syscall.PROT_READ|syscall.PROT_WRITE, syscall.MAP_SHARED)
	if err != nil {
		return &progress{mem: make([]byte, 24)}
	}
	return &progress{mem: m}
}

// begin records that run i (enumerated or random) starts now.
func (p *progress) begin(i int, enumerated bool) {
	v := uint64(i+1) << 1
	if enumerated {
		v |= 1
	}
	binary.LittleEndian.PutUint64(p.mem[0:], v)
	p.beat()
}

func (p *progress) beat() {
	binary.LittleEndian.PutUint64(p.mem[8:], binary.LittleEndian.Uint64(p.mem[8:])+1)
}

func (p *progress) idle() { binary.LittleEndian.PutUint64(p.mem[0:], 0); p.beat() }

func readProgress(path string) (i int, enumerated bool, beat uint64, ok bool) {
	b, err := os.ReadFile(path)
	if err != nil || len(b) < 16 {
		return 0, false, 0, false
	}
	v := binary.LittleEndian.Uint64(b[0:])
	beat = binary.LittleEndian.Uint64(b[8:])
	if v == 0 {
		return 0, false, beat, false
	}
	return int(v>>1) - 1, v&1 == 1, beat, true
}

// curProgress is the worker's progress file (nil in other modes); Shrink beats it.
var curProgress *progress

// Beat tells the coordinator that the current run is alive (called by long runs between their
// subprocess calls, so that an overloaded machine is not mistaken for a stalled run).
func Beat() {
	if curProgress != nil {
		curProgress.beat()
	}
}

// ---------------------------------------------------------------- journal

var (
	journalTape *os.File
	journalOps  *os.File
)

// Journaling is true in the single-run child: draws and submitted texts go to disk unbuffered.
var Journaling bool

// JournalOp records one step of the history (statement text, memory operation ...).
func JournalOp(s string) {
	if journalOps != nil {
		b, _ := json.Marshal(s)
		journalOps.Write(append(b, '\n'))
	}
}

func startJournal(base string) {
	journalTape, _ = os.Create(base + ".tape")
	journalOps, _ = os.Create(base + ".ops")
	Journaling = true
	tape.OnDraw = func(r uint64) {
		if journalTape != nil {
			var b [8]byte
			binary.LittleEndian.PutUint64(b[:], r)
			journalTape.Write(b[:])
		}
	}
}

func readJournal(base string) (entries []uint64, ops []string) {
	b, _ := os.ReadFile(base + ".tape")
	for i := 0; i+8 <= len(b); i += 8 {
		entries = append(entries, binary.LittleEndian.Uint64(b[i:]))
	}
	ob, _ := os.ReadFile(base + ".ops")
	for _, l := range bytes.Split(ob, []byte("\n")) {
		if len(l) == 0 {
			continue
		}
		var s string
		if json.Unmarshal(l, &s) == nil {
			ops = append(ops, s)
		}
	}
	return
}

// ---------------------------------------------------------------- child runs

// childVerdict is how a single-run child ended.
type childVerdict struct {
	Kind   string // ok | violation | fatal | hang
	Stderr string
	Result []byte // child's JSON result for ok/violation
}

const childStall = 150 * time.Second

// runChild executes args as a child of this binary with a wall-clock limit.
func runChild(self string, limit time.Duration, args ...string) childVerdict {
	cmd := exec.Command(self, args...)
	var errb bytes.Buffer
	cmd.Stderr = &limitedWriter{w: &errb, n: 1 << 20}
	cmd.Stdout = &limitedWriter{w: &bytes.Buffer{}, n: 1 << 16}
	cmd.Env = append(os.Environ(), "GOMAXPROCS=2", "GOTRACEBACK=single")
	if err := cmd.Start(); err != nil {
		return childVerdict{Kind: "ok", Stderr: "cannot start child: " + err.Error()}
	}
	done := make(chan error, 1)
	go func() { done <- cmd.Wait() }()
	select {
	case err := <-done:
		if err == nil {
			return childVerdict{Kind: "ok", Stderr: errb.String()}
		}
		if ee, ok := err.(*exec.ExitError); ok && ee.ExitCode() == ExitViolation {
			return childVerdict{Kind: "violation", Stderr: errb.String()}
		}
		return childVerdict{Kind: "fatal", Stderr: errb.String()}
	case <-time.After(limit):
		cmd.Process.Kill()
		<-done
		return childVerdict{Kind: "hang", Stderr: errb.String()}
	}
}

type limitedWriter struct {
	w *bytes.Buffer
	n int
}

func (l *limitedWriter) Write(p []byte) (int, error) {
	if l.w.Len() < l.n {
		k := l.n - l.w.Len()
		if k > len(p) {
			k = len(p)
		}
		l.w.Write(p[:k])
	}
	return len(p), nil
}

// fatalSummary extracts the lines of a Go crash dump that identify it: the fatal error /
// panic line and the first frames inside calc (addresses removed).
func fatalSummary(stderr string) string {
	var keep []string
	frames := 0
	for _, l := range strings.Split(stderr, "\n") {
		t := strings.TrimSpace(l)
		switch {
		case strings.HasPrefix(t, "fatal error:"), strings.HasPrefix(t, "panic:"), strings.HasPrefix(t, "runtime: goroutine stack exceeds"), strings.HasPrefix(t, "runtime: out of memory"):
			keep = append(keep, t)
		case strings.HasPrefix(t, "github.com/paulsonkoly/calc/") && frames < 6:
			if i := strings.LastIndex(t, "("); i > 0 {
				t = t[:i]
			}
			keep = append(keep, "  in "+t)
			frames++
		}
	}
	if len(keep) == 0 {
		return trimTo(stderr, 600)
	}
	return strings.Join(keep, "\n")
}

func trimTo(s string, n int) string {
	if len(s) > n {
		return s[:n] + "..."
	}
	return s
}

// testCrash implements SIMCALC_TEST_CRASH=<prop>:<run>:<minlen>[:hang], a self-test of this file's
// machinery only: the named run (and any replayed tape with at least minlen non-zero entries) overflows the
// Go stack or spins, as broken real code would. Never set by any registered command.
func testCrash(id string, run int, tapeLen int) {
	spec := os.Getenv("SIMCALC_TEST_CRASH")
	if spec == "" {
		return
	}
	f := strings.Split(spec, ":")
	if len(f) < 3 || f[0] != id {
		return
	}
	r, _ := strconv.Atoi(f[1])
	ml, _ := strconv.Atoi(f[2])
	if (run >= 0 && run == r) || (run < 0 && tapeLen >= ml) {
		if len(f) > 3 && f[3] == "hang" {
			for {
			}
		}
		var rec func(n int) int
		rec = func(n int) int { return rec(n+1) + 1 }
		rec(0)
	}
}

// SingleMain is the child mode "-single i": run i alone, journalled. Exit 0 = completed
// (with or without an ordinary violation, which the parent ignores: the restarted worker
// will report it the ordinary way).
func SingleMain(p Property, seed uint64, i int, enumerated bool, journalBase string) {
	startJournal(journalBase)
	runOne(p, seed, i, enumerated)
	os.Exit(ExitHeld)
}

// TapeMain is the child mode "-childtape file": execute the tape in the file. Exit 1 when the
// run reports an ordinary violation, 0 when it completes clean; a crash speaks for itself.
func TapeMain(p Property, path string, journalBase string) {
	b, err := os.ReadFile(path)
	if err != nil {
		os.Exit(ExitTrouble)
	}
	var entries []uint64
	for k := 0; k+8 <= len(b); k += 8 {
		entries = append(entries, binary.LittleEndian.Uint64(b[k:]))
	}
	if journalBase != "" {
		startJournal(journalBase)
	}
	nz := 0
	for _, e := range entries {
		if e != 0 {
			nz++
		}
	}
	testCrash(p.ID(), -1, nz)
	r := p.Run(tape.Replay(entries))
	if r.Violation != nil {
		os.Exit(ExitViolation)
	}
	os.Exit(ExitHeld)
}

func writeTapeFile(path string, entries []uint64) {
	buf := make([]byte, 8*len(entries))
	for k, e := range entries {
		binary.LittleEndian.PutUint64(buf[8*k:], e)
	}
	os.WriteFile(path, buf, 0o644)
}

// attributeCrash re-executes run i of property p alone. It returns a replay path and clause
// when the run reproducibly kills or stalls a fresh process, or "" when it does not.
func attributeCrash(self string, p Property, seed uint64, i int, enumerated bool, tmp string, wasHang bool) (path, clause string) {
	base := fmt.Sprintf("%s/single-%d", tmp, i)
	args := []string{"-prop", p.ID(), "-seed", strconv.FormatUint(seed, 10), "-single", strconv.Itoa(i), "-journal", base}
	if enumerated {
		args = append(args, "-enum")
	}
	v := runChild(self, childStall, args...)
	if v.Kind != "fatal" && v.Kind != "hang" {
		return "", ""
	}
	clause = "fatal-crash"
	if v.Kind == "hang" {
		clause = "hang"
	}
	entries, ops := readJournal(base)
	shr := "not shrunk (enumerated case)"
	detail := v.Stderr
	if !enumerated {
		// confirm from the journalled tape, then minimise with one child per candidate
		tf := base + ".cand"
		limit := childStall
		tries := 0
		deadline := time.Now().Add(150 * time.Second)
		fails := func(e []uint64) bool {
			if tries >= 250 || time.Now().After(deadline) {
				return false
			}
			tries++
			writeTapeFile(tf, e)
			c := runChild(self, limit, "-prop", p.ID(), "-childtape", tf)
			if c.Kind == v.Kind {
				detail = c.Stderr
				return true
			}
			return false
		}
		if v.Kind == "hang" {
			limit = 20 * time.Second // candidates that stall are accepted after 20 s; the final confirmation uses the full limit
		}
		if fails(entries) {
			small := shrinkCore(entries, fails, func() bool { return tries < 250 && time.Now().Before(deadline) })
			// final confirmation with journal, full limit
			limit = childStall
			writeTapeFile(tf, small)
			c := runChild(self, limit, "-prop", p.ID(), "-childtape", tf, "-journal", base+"-min")
			if c.Kind == v.Kind {
				shr = fmt.Sprintf("tape %d -> %d entries in %d child processes", len(entries), len(small), tries)
				entries = small
				detail = c.Stderr
				_, ops = readJournal(base + "-min")
			} else {
				shr = "minimised tape did not reproduce in the confirmation child; reported unshrunk"
			}
		} else {
			shr = "journalled tape did not reproduce in a second child; reported by seed (replay re-derives the tape from seed and run index)"
			entries = nil
		}
	}
	what := "the run killed its process with a Go fatal error (unrecoverable): "
	if clause == "hang" {
		what = fmt.Sprintf("the run did not finish within %v of wall clock in a fresh process although every VM instruction is budgeted (real Go code spinning): ", childStall)
	}
	r := Result{Violation: &Violation{Clause: clause, Detail: what + fatalSummary(detail), History: map[string]any{"steps_submitted_before_the_crash": ops}}}
	head, dirty := repoHead()
	rf := ReplayFile{Property: p.ID(), Seed: seed, Run: i, Case: -1, Tape: entries, Clause: clause,
		Detail: r.Violation.Detail, History: r.Violation.History, RepoHead: head, Dirty: dirty, Shrunk: shr, Fatal: true}
	if enumerated {
		rf.Case = i
	}
	return writeReplayFile(rf), clause
}

// replayFatal re-executes a fatal replay file in a child process.
func replayFatal(rf ReplayFile, path string) int {
	self, err := os.Executable()
	if err != nil {
		return ExitTrouble
	}
	tmp, err := os.MkdirTemp("", "simcalc-replay-")
	if err != nil {
		return ExitTrouble
	}
	defer os.RemoveAll(tmp)
	var v childVerdict
	switch {
	case rf.Case >= 0:
		v = runChild(self, childStall, "-prop", rf.Property, "-seed", strconv.FormatUint(rf.Seed, 10), "-single", strconv.Itoa(rf.Case), "-enum", "-journal", tmp+"/j")
	case rf.Tape == nil:
		v = runChild(self, childStall, "-prop", rf.Property, "-seed", strconv.FormatUint(rf.Seed, 10), "-single", strconv.Itoa(rf.Run), "-journal", tmp+"/j")
	default:
		writeTapeFile(tmp+"/t", rf.Tape)
		v = runChild(self, childStall, "-prop", rf.Property, "-childtape", tmp+"/t")
	}
	want := "fatal"
	if rf.Clause == "hang" {
		want = "hang"
	}
	if v.Kind == want {
		fmt.Fprintf(Stdout, "clause: %s\ndetail: %s\n", rf.Clause, fatalSummary(v.Stderr))
		h, _ := json.MarshalIndent(rf.History, "", " ")
		fmt.Fprintf(Stdout, "history: %s\n", h)
		fmt.Fprintf(Stdout, "VIOLATION property=%s replay=%s\n", rf.Property, path)
		return ExitViolation
	}
	if v.Kind == "fatal" || v.Kind == "hang" {
		fmt.Fprintf(Stdout, "replay ended differently (%s, recorded %s): %s\n", v.Kind, rf.Clause, fatalSummary(v.Stderr))
		fmt.Fprintf(Stdout, "VIOLATION property=%s replay=%s\n", rf.Property, path)
		return ExitViolation
	}
	fmt.Fprintf(Stdout, "replay passes: property=%s held on this history (child process completed)\n", rf.Property)
	return ExitHeld
}

// MemoryLimit bounds the address space of every simcalc process and of the calc binaries it
// starts (children inherit it). The sandbox has no memory limit of its own: real code that
// allocates without bound must die with Go's "fatal error: runtime: out of memory" inside its
// own process (attributed to the run like any other fatal error), not take the machine down.
const MemoryLimit = 4 << 30

func limitMemory() {
	l := syscall.Rlimit{Cur: MemoryLimit, Max: MemoryLimit}
	if err := syscall.Setrlimit(syscall.RLIMIT_AS, &l); err != nil {
		fmt.Fprintln(os.Stderr, "cannot limit address space:", err)
	}
}
