package core

import (
	"bufio"
	"encoding/json"
	"fmt"
	"os"
	"path/filepath"
	"strings"
)

// Scripted is implemented by properties that can re-execute a hand-written history
// (used for known findings and for regressions of repaired defects).
type Scripted interface {
	RunScript(raw json.RawMessage) Result
}

// Finding is one line of /verif/known_findings.jsonl.
type Finding struct {
	Status   string          `json:"status"` // known | fixed
	Property string          `json:"property"`
	ID       string          `json:"id"`
	Script   json.RawMessage `json:"script"`
	Clause   string          `json:"clause"`
	What     string          `json:"what"`
	Commit   string          `json:"commit,omitempty"`
}

// LoadFindings reads the committed findings file (never written at run time).
func LoadFindings() ([]Finding, error) {
	f, err := os.Open(filepath.Join(VerifDir, "known_findings.jsonl"))
	if err != nil {
		if os.IsNotExist(err) {
			return nil, nil
		}
		return nil, err
	}
	defer f.Close()
	var out []Finding
	sc := bufio.NewScanner(f)
	sc.Buffer(make([]byte, 1<<20), 1<<24)
	ln := 0
	for sc.Scan() {
		ln++
		line := strings.TrimSpace(sc.Text())
		if line == "" || strings.HasPrefix(line, "#") {
			continue
		}
		var fd Finding
		if err := json.Unmarshal([]byte(line), &fd); err != nil {
			return nil, fmt.Errorf("known_findings.jsonl line %d: %v", ln, err)
		}
		out = append(out, fd)
	}
	return out, sc.Err()
}

func replayKnownFindings(p Property) (violations int, lines []string, trouble bool) {
	fds, err := LoadFindings()
	if err != nil {
		fmt.Fprintln(os.Stderr, err)
		return 0, nil, true
	}
	sc, ok := p.(Scripted)
	for _, fd := range fds {
		if fd.Property != p.ID() {
			continue
		}
		if !ok {
			fmt.Fprintf(os.Stderr, "property %s has findings but no scripted replay\n", p.ID())
			return 0, nil, true
		}
		r := sc.RunScript(fd.Script)
		if r.Discard != "" {
			fmt.Fprintf(os.Stderr, "finding %s: script rejected: %s\n", fd.ID, r.Discard)
			return 0, nil, true
		}
		switch fd.Status {
		case "known":
			if r.Violation != nil {
				lines = append(lines, fmt.Sprintf("KNOWN-FINDING: property=%s %s %s [clause %s]", p.ID(), fd.ID, fd.What, r.Violation.Clause))
			}
		case "fixed":
			if r.Violation != nil {
				head, dirty := repoHead()
				var script any
				json.Unmarshal(fd.Script, &script)
				rf := ReplayFile{Property: p.ID(), Case: -1, Script: script, Clause: r.Violation.Clause,
					Detail: r.Violation.Detail, History: r.Violation.History, RepoHead: head, Dirty: dirty,
					Shrunk: "regression history of repaired defect " + fd.ID + " (" + fd.Commit + ")"}
				dir := filepath.Join(VerifDir, "replays")
				os.MkdirAll(dir, 0o755)
				path := filepath.Join(dir, fmt.Sprintf("%s-regression-%s.json", p.ID(), fd.ID))
				b, _ := json.MarshalIndent(rf, "", " ")
				os.WriteFile(path, b, 0o644)
				lines = append(lines, fmt.Sprintf("VIOLATION property=%s replay=%s", p.ID(), path))
				violations++
			}
		default:
			fmt.Fprintf(os.Stderr, "finding %s: unknown status %q\n", fd.ID, fd.Status)
			return 0, nil, true
		}
	}
	return violations, lines, false
}
