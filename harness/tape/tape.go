// Package tape is the single source of every choice a simulated run makes.
//
// In search mode entries come from splitmix64 seeded by one integer; in replay
// mode they come from a recorded slice and draws past its end return 0. Every
// generator is written so that 0 is the simplest alternative, which is what
// makes shrinking by tape effective.
package tape

// Tape is a choice tape.
type Tape struct {
	state  uint64
	replay bool
	in     []uint64
	pos    int
	rec    []uint64
}

// Mix combines seed material into one 64-bit seed (splitmix finaliser).
func Mix(parts ...uint64) uint64 {
	h := uint64(0x9e3779b97f4a7c15)
	for _, p := range parts {
		h ^= p + 0x9e3779b97f4a7c15 + (h << 6) + (h >> 2)
		h = fin(h)
	}
	return h
}

// HashString is FNV-1a, used to turn property ids into seed material.
func HashString(s string) uint64 {
	h := uint64(14695981039346656037)
	for i := 0; i < len(s); i++ {
		h ^= uint64(s[i])
		h *= 1099511628211
	}
	return h
}

func fin(z uint64) uint64 {
	z = (z ^ (z >> 30)) * 0xbf58476d1ce4e5b9
	z = (z ^ (z >> 27)) * 0x94d049bb133111eb
	return z ^ (z >> 31)
}

// New returns a search-mode tape.
func New(seed uint64) *Tape { return &Tape{state: seed} }

// Replay returns a replay-mode tape over entries.
func Replay(entries []uint64) *Tape {
	return &Tape{replay: true, in: append([]uint64(nil), entries...)}
}

func (t *Tape) next() uint64 {
	if t.replay {
		if t.pos < len(t.in) {
			v := t.in[t.pos]
			t.pos++
			return v
		}
		t.pos++
		return 0
	}
	t.state += 0x9e3779b97f4a7c15
	return fin(t.state)
}

// OnDraw, if set, observes every reduced entry as it is drawn (crash journal of the
// single-run child process; never set in search mode).
var OnDraw func(r uint64)

// Draw returns a value in [0,n). n <= 1 consumes an entry too (keeps tapes aligned).
func (t *Tape) Draw(n int) int {
	v := t.next()
	r := uint64(0)
	if n > 1 {
		r = v % uint64(n)
	}
	t.rec = append(t.rec, r)
	if OnDraw != nil {
		OnDraw(r)
	}
	return int(r)
}

// Range returns a value in [lo,hi] with lo as the simplest.
func (t *Tape) Range(lo, hi int) int {
	if hi <= lo {
		t.Draw(1)
		return lo
	}
	return lo + t.Draw(hi-lo+1)
}

// Chance is true with probability num/den; false is the simple outcome.
func (t *Tape) Chance(num, den int) bool {
	return t.Draw(den) >= den-num
}

// Bool is a fair coin; false is the simple outcome.
func (t *Tape) Bool() bool { return t.Draw(2) == 1 }

// Pick returns an index into a list of n alternatives.
func (t *Tape) Pick(n int) int { return t.Draw(n) }

// Recorded returns the reduced entries drawn so far; replaying them reproduces the run.
func (t *Tape) Recorded() []uint64 { return append([]uint64(nil), t.rec...) }

// Len is the number of draws so far.
func (t *Tape) Len() int { return len(t.rec) }
