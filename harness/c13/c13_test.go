package c13

import (
	"encoding/json"
	"os"
	"sort"
	"strconv"
	"testing"

	"github.com/paulsonkoly/calc/combinator"

	"verif/core"
	"verif/tape"
)

func envInt(name string, def int) int {
	if v, err := strconv.Atoi(os.Getenv(name)); err == nil && v > 0 {
		return v
	}
	return def
}

// TestCleanTree: the unmodified tree has no violation and no panic.
// C13_RUNS overrides the run count, C13_EXPECT_VIOLATION=1 inverts the test
// (used by the mutation sensitivity check against a scratch copy).
func TestCleanTree(t *testing.T) {
	runs := envInt("C13_RUNS", 20000)
	v, detail, at := selfRun(1, runs)
	if os.Getenv("C13_EXPECT_VIOLATION") == "1" {
		if v == 0 {
			t.Fatalf("mutation NOT caught in %d runs", runs)
		}
		t.Logf("mutation caught: %d violations in %d runs, first at run %d: %s", v, runs, at, detail)
		return
	}
	if v != 0 {
		t.Fatalf("%d violations in %d runs; first: %s", v, runs, detail)
	}
}

// TestCoverage reports how often the probes and the non-triviality rule fire.
func TestCoverage(t *testing.T) {
	runs := envInt("C13_RUNS", 20000)
	var p Prop
	stats := map[string]int{}
	nonTriv, discards := map[string]int{}, 0
	distinct := map[uint64]bool{}
	for i := 0; i < runs; i++ {
		r := p.Run(tape.New(core.SeedFor(7, "C13", i)))
		if r.Discard != "" {
			discards++
			continue
		}
		part := r.Sample.(*History).Part
		stats["runs."+part]++
		if r.NonTrivial {
			nonTriv[part]++
		}
		distinct[r.Key] = true
		for k, n := range r.Stats {
			stats[k] += n
		}
	}
	keys := make([]string, 0, len(stats))
	for k := range stats {
		keys = append(keys, k)
	}
	sort.Strings(keys)
	for _, k := range keys {
		t.Logf("%-55s %d", k, stats[k])
	}
	t.Logf("non-trivial: A=%d B1=%d B2=%d of %d runs; distinct=%d discards=%d", nonTriv["A"], nonTriv["B1"], nonTriv["B2"], runs, len(distinct), discards)
	for _, part := range []string{"A", "B1", "B2"} {
		if nonTriv[part]*20 < stats["runs."+part] {
			t.Errorf("part %s: fewer than 5%% non-trivial runs (%d of %d)", part, nonTriv[part], stats["runs."+part])
		}
	}
	for _, k := range []string{"F10.lexer_error_injected", "F10.premature_end", "F11.rollback", "F11.rollback_past_cached",
		"probe.nested_snapshot_depth>=2", "probe.choice_in_repetition_failed_after_consuming", "probe.cached_error_replayed"} {
		if stats[k] == 0 {
			t.Errorf("%s never fired", k)
		}
	}
}

// TestDeterminism: same tape, same everything; replaying the recorded tape too.
func TestDeterminism(t *testing.T) {
	var p Prop
	for i := 0; i < 3000; i++ {
		seed := core.SeedFor(3, "C13", i)
		tp := tape.New(seed)
		a := p.Run(tp)
		b := p.Run(tape.New(seed))
		c := p.Run(tape.Replay(tp.Recorded()))
		ja, _ := json.Marshal(a.Sample)
		jb, _ := json.Marshal(b.Sample)
		jc, _ := json.Marshal(c.Sample)
		if a.TraceHash != b.TraceHash || a.Key != b.Key || string(ja) != string(jb) {
			t.Fatalf("run %d not deterministic: %s vs %s", i, ja, jb)
		}
		if a.TraceHash != c.TraceHash || a.Key != c.Key || string(ja) != string(jc) {
			t.Fatalf("run %d: replay of the recorded tape differs: %s vs %s", i, ja, jc)
		}
	}
}

// TestZeroTape: the all-zero tape (what shrinking converges to) and short
// prefixes are legal, simplest histories.
func TestZeroTape(t *testing.T) {
	var p Prop
	for part := uint64(0); part < 3; part++ {
		r := p.Run(tape.Replay([]uint64{part}))
		if r.Violation != nil || r.Discard != "" {
			t.Fatalf("part %d zero tape: %+v %q", part, r.Violation, r.Discard)
		}
		j, _ := json.Marshal(r.Sample)
		t.Logf("zero tape part %d: %s", part, j)
	}
}

// TestHistoryMarshals: histories render to JSON.
func TestHistoryMarshals(t *testing.T) {
	var p Prop
	for i := 0; i < 200; i++ {
		r := p.Run(tape.New(core.SeedFor(5, "C13", i)))
		if _, err := json.Marshal(r.Sample); err != nil {
			t.Fatal(err)
		}
	}
}

func BenchmarkRun(b *testing.B) {
	var p Prop
	for i := 0; i < b.N; i++ {
		p.Run(tape.New(core.SeedFor(11, "C13", i)))
	}
}

// TestChooseNilOnSuccessQuirk documents (does not assert) a result-building
// quirk that the generator keeps out of its parsers: when OnSuccess succeeds
// with a nil slice, Choose returns nil and drops the gate's nodes.
func TestChooseNilOnSuccessQuirk(t *testing.T) {
	e := &expr{kind: kAccept, set: "a"}
	gate := build(e)
	nilF := combinator.Fmap(func([]combinator.Node) []combinator.Node { return nil }, combinator.Ok())
	emptyF := combinator.Fmap(func([]combinator.Node) []combinator.Node { return []combinator.Node{} }, combinator.Ok())
	for i, s := range []combinator.Parser{nilF, emptyF} {
		name := []string{"nil", "empty"}[i]
		sim := &simLexer{ents: []simEntry{{tok: simTok{letter: 'a'}}}, end: 1}
		nodes, err := combinator.Choose(combinator.Conditional{Gate: gate, OnSuccess: s})(sim)
		t.Logf("Choose([a] : Fmap(returns %s slice, Ok)) on \"a\": nodes=%v err=%v", name, nodes, err)
	}
}
