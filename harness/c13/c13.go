// Package c13 decides property C13 "Backtracking is invisible: failed
// alternatives consume nothing" by deterministic simulation.
//
// One run is one history, drawn entirely from the choice tape:
//
//   - part A drives the real lexer.TLexer with a random legal interleaving of
//     Next/Snapshot/Rollback/Commit and compares every observable with a fresh
//     scan of the same input by the plain lexer (cursor + stack-of-cursors model);
//   - part B1 runs a random parser built from the real combinators over a
//     simulated, call-recording RollbackLexer with injected lexer faults (F10)
//     and compares (success, nodes, final position) with an independent
//     ordered-choice reference recogniser, plus history invariants on the
//     recorded Snapshot/Commit/Rollback calls;
//   - part B2 runs the same real parser over the real TLexer and over the
//     simulated lexer fed the token list of a fresh scan, under outer
//     snapshots, and requires identical call-by-call observations.
package c13

import (
	"encoding/json"
	"fmt"
	"verif/sess"

	"verif/core"
	"verif/tape"
)

// Prop is the C13 property.
type Prop struct{}

// quickRuns is sized from the measured throughput (see c13_test.go
// BenchmarkRun): about 41k runs per CPU-second single core (GOMAXPROCS=1), so ~60 CPU-seconds.
const quickRuns = 8_000_000

func (Prop) ID() string    { return "C13" }
func (Prop) Level() string { return "exploration" }

func (Prop) Runs(t core.Tier) int {
	if t == core.Thorough {
		return quickRuns * 60
	}
	return quickRuns
}

func (Prop) Rule() string {
	return "non-trivial = (part A) the history opened nested snapshots to depth >= 2 and at least one " +
		"Rollback moved the read cursor back over >= 1 cached entry; (part B) the parser contains a choice " +
		"(OneOf/Choose/SeparatedBy/Assert) nested inside a repetition (Any/SeparatedBy) and, in the " +
		"reference run, some alternative of such a choice failed after consuming >= 1 token"
}

func (Prop) Assumptions() []string {
	return []string{
		"the fresh scan by the plain, non-transactional lexer.Lexer is trusted as the model of part A (tokens, errors, Next booleans): " +
			"what the lexer emits for an input is property C14; TLexer.From/To, which the plain lexer does not export, are taken from a " +
			"TLexer that is only ever advanced with Next, after that Next-only history was itself checked against the plain scan",
		"inputs never end inside a comment or string literal, never contain NUL, always end in a newline and are <= 60 bytes " +
			"(the lexer spins or panics on those shapes; they belong to other properties)",
		"Token/Err/From/To are queried only after a successful Next (readp >= 0), Rollback/Commit only with a snapshot open",
		"simulated lexer faults are positional: token k carries an error / the stream ends after m tokens on every visit, " +
			"as a caching transactional lexer would replay them",
		"generated parsers follow the documented usage: Choose ends in an Ok() gate; every Any has a gate or an OnSuccess " +
			"that consumes >= 1 token on success; SeparatedBy has a consuming element or separator; Not only directly under Assert; " +
			"Fmap functions return non-nil slices (a successful OnSuccess returning a nil slice makes Choose drop the gate's nodes)",
		"error messages of failed parses are compared only between the two real runs of part B2, never against the reference; " +
			"node lists of failed parses are not compared",
		"Accept calls From/To after Next returned false; the simulated lexer answers 0 when no token was ever read " +
			"(the real lexer always yields at least one entry, so this is never reached with TLexer)",
	}
}

func (Prop) RealComponents() []string {
	return []string{
		"lexer.TLexer (lexer/transaction.go)",
		"lexer.Lexer + state functions (lexer/lexer.go, lexer/states.go)",
		"combinator.Accept/Ok/And/Seq/OneOf/Choose/Any/SeparatedBy/SurroundedBy/Assert/Not/Drop/Fmap (combinator/combinator.go)",
		"types/token",
	}
}

func (Prop) StubComponents() []string {
	return []string{
		"simulated combinator.RollbackLexer over a token array with call recording and F10 fault injection (part B)",
		"pass-through recording proxy around lexer.TLexer (part B2)",
		"token wrapper / Fmap functions over string nodes",
	}
}

// History is the rendered history of one run (JSON-marshalable).
type History struct {
	Part   string `json:"part"`
	Input  string `json:"input,omitempty"`  // A, B2: lexer input text
	Ops    string `json:"ops,omitempty"`    // A: N=Next S=Snapshot R=Rollback C=Commit, then an implicit drain
	Parser string `json:"parser,omitempty"` // B: parser expression
	Tokens string `json:"tokens,omitempty"` // B: token stream, one letter per token ('!' suffix = lexer error)
	Faults string `json:"faults,omitempty"` // B1: fault plan
	Pre    string `json:"pre,omitempty"`    // B2: ops before the parser (N, S)
	Post   string `json:"post,omitempty"`   // B2: how the outer snapshots are closed (C, R), innermost first, then a drain
	Calls  string `json:"calls,omitempty"`  // B: recorded lexer calls (filled on violation only)
}

func (h *History) key() uint64 {
	k := core.NewHash().Str(h.Part).Str(h.Input).Str(h.Ops).Str(h.Parser).Str(h.Tokens).Str(h.Faults).Str(h.Pre).Str(h.Post)
	return uint64(k)
}

// Run executes one simulated run.
var c13Runs int

func (Prop) Run(tp *tape.Tape) (res core.Result) {
	defer func() {
		if p := recover(); p != nil {
			// a panic that escaped the guarded real-code calls is a harness defect
			res.Violation = &core.Violation{Clause: "harness-panic", Detail: fmt.Sprint(p)}
		}
	}()
	// part C, every 4096th run of a worker: the real grammar (parser.go over the real TLexer and
	// combinators) parses a fixed set of statements full of failing alternatives; the outcome must be
	// what it was when the process started (a failed alternative must consume nothing, not even
	// state outside the lexer)
	c13Runs++
	if c13Runs%4096 == 1 {
		res.Inc("part.C_parse_canary", 1)
		if same, detail := sess.ParseCanary(); !same {
			res.Violation = &core.Violation{Clause: "C.parse-depends-on-history", Detail: detail}
			return res
		}
	}
	switch tp.Draw(3) {
	case 0:
		res.Inc("part.A", 1)
		runA(tp, &res)
	case 1:
		res.Inc("part.B1", 1)
		runB(tp, &res, false)
	default:
		res.Inc("part.B2", 1)
		runB(tp, &res, true)
	}
	return res
}

// SelfRun loops run indices 0..runs-1 under seed and counts violations; used
// by the clean-tree test and the mutation sensitivity check.
func SelfRun(seed uint64, runs int) (violations int, firstDetail string) {
	v, d, _ := selfRun(seed, runs)
	return v, d
}

func selfRun(seed uint64, runs int) (violations int, firstDetail string, firstAt int) {
	firstAt = -1
	var p Prop
	for i := 0; i < runs; i++ {
		r := p.Run(tape.New(core.SeedFor(seed, "C13", i)))
		if r.Violation != nil {
			violations++
			if firstAt < 0 {
				firstAt = i
				h, _ := json.Marshal(r.Violation.History)
				firstDetail = fmt.Sprintf("run %d: %s: %s; history=%s", i, r.Violation.Clause, r.Violation.Detail, h)
			}
		}
	}
	return violations, firstDetail, firstAt
}

// guard runs f and returns a recovered panic value (nil if none).
func guard(f func()) (pan any) {
	defer func() {
		if p := recover(); p != nil {
			pan = p
		}
	}()
	f()
	return nil
}

// capPanic is raised by the recording lexers when a history exceeds the call cap.
type capPanic struct{}
