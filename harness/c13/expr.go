package c13

import (
	"strconv"
	"strings"

	"github.com/paulsonkoly/calc/combinator"
	"github.com/paulsonkoly/calc/types/token"

	"verif/tape"
)

// alphabet of part B. '.' stands for the end-of-line token in B2 and is just a
// fifth letter in B1. Tokens outside the alphabet ('e' = EOF, '?' = anything
// else) are never accepted by a generated predicate.
const alphabet = "abcd."

const (
	kAccept = iota
	kOk
	kAnd
	kSeq
	kOneOf
	kChoose // kids: gate1, onSuccess1, ..., gateN (= Ok), onSuccessN
	kAny    // kids: gate, onSuccess
	kSepBy  // kids: element, separator
	kSurr   // kids: a, b, c
	kAssert
	kAssertNot // Assert(Not(kid))
	kDrop
	kFmap
)

// expr is a parser expression; the real parser and the reference recogniser
// are both derived from it.
type expr struct {
	kind int
	set  string // kAccept: accepted letters
	fm   int    // kFmap: function id
	kids []*expr
}

var (
	freeKinds = []int{kAccept, kOk, kAnd, kSeq, kOneOf, kChoose, kAny, kSepBy, kSurr, kAssert, kAssertNot, kDrop, kFmap,
		kAny, kSepBy, kOneOf, kChoose, kAny, kSepBy}
	// kinds that can be made to consume >= 1 token whenever they succeed
	mustKinds = []int{kAccept, kAnd, kSeq, kOneOf, kChoose, kSurr, kDrop, kFmap, kOneOf, kChoose}
)

type pgen struct {
	tp     *tape.Tape
	budget int
}

func (g *pgen) set() string {
	mask := 1 + g.tp.Draw(1<<len(alphabet)-1)
	var b []byte
	for i := 0; i < len(alphabet); i++ {
		if mask&(1<<i) != 0 {
			b = append(b, alphabet[i])
		}
	}
	return string(b)
}

// gen draws an expression. must = the expression has to consume at least one
// token whenever it succeeds (needed for termination of Any/SeparatedBy).
func (g *pgen) gen(depth int, must bool) *expr {
	g.budget--
	if depth <= 0 || g.budget <= 0 {
		if must || g.tp.Draw(2) == 0 {
			return &expr{kind: kAccept, set: g.set()}
		}
		return &expr{kind: kOk}
	}
	var k int
	if must {
		k = mustKinds[g.tp.Pick(len(mustKinds))]
	} else {
		k = freeKinds[g.tp.Pick(len(freeKinds))]
	}
	e := &expr{kind: k}
	// which picks the child that inherits the obligation (-1 = none)
	which := func(n int) int {
		if !must {
			return -1
		}
		return g.tp.Draw(n)
	}
	switch k {
	case kAccept:
		e.set = g.set()
	case kOk:
	case kAnd:
		w := which(2)
		e.kids = []*expr{g.gen(depth-1, w == 0), g.gen(depth-1, w == 1)}
	case kSeq:
		n := g.tp.Range(2, 3)
		w := which(n)
		for i := 0; i < n; i++ {
			e.kids = append(e.kids, g.gen(depth-1, w == i))
		}
	case kSurr:
		w := which(3)
		for i := 0; i < 3; i++ {
			e.kids = append(e.kids, g.gen(depth-1, w == i))
		}
	case kOneOf:
		n := g.tp.Range(1, 3)
		for i := 0; i < n; i++ {
			e.kids = append(e.kids, g.gen(depth-1, must))
		}
	case kChoose:
		n := g.tp.Range(1, 3)
		for i := 0; i < n-1; i++ {
			w := which(2)
			e.kids = append(e.kids, g.gen(depth-1, w == 0), g.gen(depth-1, w == 1))
		}
		e.kids = append(e.kids, &expr{kind: kOk}, g.gen(depth-1, must))
	case kAny:
		// the grammar uses both shapes: a consuming gate, or a look-ahead
		// gate with a consuming OnSuccess
		w := g.tp.Draw(2)
		e.kids = []*expr{g.gen(depth-1, w == 0), g.gen(depth-1, w == 1)}
	case kSepBy:
		w := g.tp.Draw(2)
		e.kids = []*expr{g.gen(depth-1, w == 0), g.gen(depth-1, w == 1)}
	case kAssert, kAssertNot:
		e.kids = []*expr{g.gen(depth-1, false)}
	case kDrop:
		e.kids = []*expr{g.gen(depth-1, must)}
	case kFmap:
		e.fm = g.tp.Pick(4)
		e.kids = []*expr{g.gen(depth-1, must)}
	}
	return e
}

var fmNames = [...]string{"group", "count", "dup", "none"}

func (e *expr) write(b *strings.Builder) {
	list := func(name string) {
		b.WriteString(name)
		b.WriteByte('(')
		for i, k := range e.kids {
			if i > 0 {
				b.WriteByte(',')
			}
			k.write(b)
		}
		b.WriteByte(')')
	}
	switch e.kind {
	case kAccept:
		b.WriteByte('[')
		b.WriteString(e.set)
		b.WriteByte(']')
	case kOk:
		b.WriteString("ok")
	case kAnd:
		list("And")
	case kSeq:
		list("Seq")
	case kOneOf:
		list("OneOf")
	case kSurr:
		list("Surr")
	case kSepBy:
		list("SepBy")
	case kAssert:
		list("Assert")
	case kAssertNot:
		b.WriteString("Assert(Not(")
		e.kids[0].write(b)
		b.WriteString("))")
	case kDrop:
		list("Drop")
	case kFmap:
		list("Fmap." + fmNames[e.fm])
	case kChoose, kAny:
		if e.kind == kAny {
			b.WriteString("Any(")
		} else {
			b.WriteString("Choose(")
		}
		for i := 0; i+1 < len(e.kids); i += 2 {
			if i > 0 {
				b.WriteString(" | ")
			}
			e.kids[i].write(b)
			b.WriteByte(':')
			e.kids[i+1].write(b)
		}
		b.WriteByte(')')
	}
}

func (e *expr) String() string {
	var b strings.Builder
	e.write(&b)
	return b.String()
}

func (e *expr) size() int {
	n := 1
	for _, k := range e.kids {
		n += k.size()
	}
	return n
}

// hasChoiceInRepetition is the static half of the non-triviality rule.
func (e *expr) hasChoiceInRepetition(inRep bool) bool {
	switch e.kind {
	case kOneOf, kChoose, kAssert, kAssertNot, kSepBy:
		if inRep {
			return true
		}
	}
	rep := inRep || e.kind == kAny || e.kind == kSepBy
	for _, k := range e.kids {
		if k.hasChoiceInRepetition(rep) {
			return true
		}
	}
	return false
}

// ---- nodes, wrapper, Fmap functions (given, shared by both sides) ----

// simTok is the token of the simulated stream in part B1.
type simTok struct {
	letter   byte
	from, to int
}

func (t simTok) From() int      { return t.from }
func (t simTok) To() int        { return t.to }
func (t simTok) String() string { return string(t.letter) }

// letterOf maps a token of either lexer to the alphabet.
func letterOf(t combinator.Token) byte {
	switch v := t.(type) {
	case simTok:
		return v.letter
	case token.Type:
		switch v.Type {
		case token.Name:
			if len(v.Value) == 1 && v.Value[0] >= 'a' && v.Value[0] <= 'd' {
				return v.Value[0]
			}
		case token.EOL:
			return '.'
		case token.EOF:
			return 'e'
		}
	}
	return '?'
}

type wrapper struct{}

func (wrapper) Wrap(t combinator.Token) combinator.Node { return string(letterOf(t)) }

func applyF(id int, ss []string) []string {
	switch id {
	case 0:
		return []string{"(" + strings.Join(ss, "") + ")"}
	case 1:
		return []string{strconv.Itoa(len(ss))}
	case 2:
		out := make([]string, 0, 2*len(ss))
		for _, s := range ss {
			out = append(out, s, s)
		}
		return out
	default:
		return []string{}
	}
}

func nodeStrings(ns []combinator.Node) []string {
	out := make([]string, len(ns))
	for i, n := range ns {
		if s, ok := n.(string); ok {
			out[i] = s
		} else {
			out[i] = "<non-string node>"
		}
	}
	return out
}

func fmReal(id int) func([]combinator.Node) []combinator.Node {
	return func(ns []combinator.Node) []combinator.Node {
		ss := applyF(id, nodeStrings(ns))
		out := make([]combinator.Node, len(ss))
		for i, s := range ss {
			out[i] = s
		}
		return out
	}
}

// build makes the real parser.
func build(e *expr) combinator.Parser {
	kids := func() []combinator.Parser {
		ps := make([]combinator.Parser, len(e.kids))
		for i, k := range e.kids {
			ps[i] = build(k)
		}
		return ps
	}
	switch e.kind {
	case kAccept:
		set := e.set
		return combinator.Accept(func(t combinator.Token) bool { return strings.IndexByte(set, letterOf(t)) >= 0 }, "one of "+set, wrapper{})
	case kOk:
		return combinator.Ok()
	case kAnd:
		ps := kids()
		return combinator.And(ps[0], ps[1])
	case kSeq:
		return combinator.Seq(kids()...)
	case kOneOf:
		return combinator.OneOf(kids()...)
	case kChoose:
		ps := kids()
		cs := make([]combinator.Conditional, 0, len(ps)/2)
		for i := 0; i+1 < len(ps); i += 2 {
			cs = append(cs, combinator.Conditional{Gate: ps[i], OnSuccess: ps[i+1]})
		}
		return combinator.Choose(cs...)
	case kAny:
		ps := kids()
		return combinator.Any(combinator.Conditional{Gate: ps[0], OnSuccess: ps[1]})
	case kSepBy:
		ps := kids()
		return combinator.SeparatedBy(ps[0], ps[1])
	case kSurr:
		ps := kids()
		return combinator.SurroundedBy(ps[0], ps[1], ps[2])
	case kAssert:
		return combinator.Assert(build(e.kids[0]))
	case kAssertNot:
		return combinator.Assert(combinator.Not(build(e.kids[0])))
	case kDrop:
		return combinator.Drop(build(e.kids[0]))
	case kFmap:
		return combinator.Fmap(fmReal(e.fm), build(e.kids[0]))
	}
	panic("c13: unknown expr kind")
}

// ---- reference recogniser (Appendix B of DESIGN.md) ----

const refStepCap = 20000

type ref struct {
	letters []byte
	errs    []bool
	end     int // tokens at index >= end do not exist
	steps   int
	capped  bool
	probe   int // a choice under a repetition had an alternative fail after consuming
}

func (r *ref) alt(failed bool, from, to int, inRep bool) {
	if failed && to > from && inRep {
		r.probe++
	}
}

// eval maps position p to (ok, nodes, p').
func (r *ref) eval(e *expr, p int, inRep bool) (bool, []string, int) {
	r.steps++
	if r.steps > refStepCap {
		r.capped = true
		return false, nil, p
	}
	switch e.kind {
	case kAccept:
		if p >= r.end {
			return false, nil, p
		}
		if r.errs[p] {
			return false, nil, p + 1
		}
		c := r.letters[p]
		if strings.IndexByte(e.set, c) < 0 {
			return false, nil, p + 1
		}
		return true, []string{string(c)}, p + 1
	case kOk:
		return true, nil, p
	case kAnd, kSeq:
		var acc []string
		for _, k := range e.kids {
			ok, n, q := r.eval(k, p, inRep)
			if !ok {
				return false, nil, q
			}
			acc = append(acc, n...)
			p = q
		}
		return true, acc, p
	case kSurr:
		var mid []string
		for i, k := range e.kids {
			ok, n, q := r.eval(k, p, inRep)
			if !ok {
				return false, nil, q
			}
			if i == 1 {
				mid = n
			}
			p = q
		}
		return true, mid, p
	case kAssert:
		ok, _, q := r.eval(e.kids[0], p, inRep)
		r.alt(!ok, p, q, inRep)
		return ok, nil, p
	case kAssertNot:
		ok, _, q := r.eval(e.kids[0], p, inRep)
		// Not(kid) fails iff kid succeeded; Not does not restore, Assert does
		r.alt(ok, p, q, inRep)
		return !ok, nil, p
	case kOneOf:
		for _, k := range e.kids {
			ok, n, q := r.eval(k, p, inRep)
			if ok {
				return true, n, q
			}
			r.alt(true, p, q, inRep)
		}
		return false, nil, p
	case kChoose:
		for i := 0; i+1 < len(e.kids); i += 2 {
			ok, gn, q := r.eval(e.kids[i], p, inRep)
			if !ok {
				r.alt(true, p, q, inRep)
				continue
			}
			ok, sn, q2 := r.eval(e.kids[i+1], q, inRep)
			if !ok {
				return false, nil, q2
			}
			return true, append(append([]string(nil), gn...), sn...), q2
		}
		r.capped = true // unreachable: the last gate is Ok
		return false, nil, p
	case kAny:
		var acc []string
		for {
			ok, gn, q := r.eval(e.kids[0], p, true)
			if !ok {
				return true, acc, p
			}
			ok, sn, q2 := r.eval(e.kids[1], q, true)
			if !ok {
				return false, nil, q2
			}
			acc = append(append(acc, gn...), sn...)
			if q2 <= p || r.capped {
				r.capped = true // unreachable by construction: would not terminate
				return false, nil, p
			}
			p = q2
		}
	case kSepBy:
		ok, acc, q := r.eval(e.kids[0], p, true)
		if !ok {
			r.alt(true, p, q, inRep)
			return true, nil, p
		}
		acc = append([]string(nil), acc...)
		p = q
		for {
			ok, _, q1 := r.eval(e.kids[1], p, true)
			if !ok {
				r.alt(true, p, q1, inRep)
				return true, acc, p
			}
			ok, an, q2 := r.eval(e.kids[0], q1, true)
			if !ok {
				r.alt(true, p, q2, inRep)
				return true, acc, p
			}
			acc = append(acc, an...)
			if q2 <= p || r.capped {
				r.capped = true
				return true, acc, p
			}
			p = q2
		}
	case kDrop:
		ok, _, q := r.eval(e.kids[0], p, inRep)
		return ok, nil, q
	case kFmap:
		ok, n, q := r.eval(e.kids[0], p, inRep)
		if !ok {
			return false, nil, q
		}
		return true, applyF(e.fm, n), q
	}
	panic("c13: unknown expr kind")
}
