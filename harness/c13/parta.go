package c13

import (
	"fmt"

	"github.com/paulsonkoly/calc/lexer"
	"github.com/paulsonkoly/calc/types/token"

	"verif/core"
	"verif/tape"
)

const (
	maxInput = 60 // bytes, including the terminating newline
	maxOpsA  = 60 // ops per part-A history
)

// Caps on Next calls per history and per fresh scan. Long histories (1 part-A run in 64: inputs of
// 600..1400 lexemes and bursts of 256 Next calls, so that the replay cache holds thousands of
// entries when snapshots are taken, rolled back and committed) raise them for their own duration.
var (
	maxInputLen = maxInput
	maxNextA    = 400
	maxScanNext = 200
)

func setLong(long bool) {
	if long {
		maxInputLen, maxNextA, maxScanNext = 16000, 12000, 6000
	} else {
		maxInputLen, maxNextA, maxScanNext = maxInput, 400, 200
	}
}

// scanEntry is everything observable about one lexer position.
type scanEntry struct {
	kind       token.Kind
	val        string
	tfrom, tto int // span stored in the token
	err        string
	from, to   int // TLexer.From/To
}

func (e scanEntry) String() string {
	return fmt.Sprintf("{%v %q tok@%d:%d err=%q lex@%d:%d}", e.kind, e.val, e.tfrom, e.tto, e.err, e.from, e.to)
}

func observe(tl *lexer.TLexer) scanEntry {
	var e scanEntry
	tok, ok := tl.Token().(token.Type)
	if !ok {
		e.val = fmt.Sprintf("<non-token %T>", tl.Token())
	} else {
		e.kind, e.val, e.tfrom, e.tto = tok.Type, tok.Value, tok.From(), tok.To()
	}
	if err := tl.Err(); err != nil {
		e.err = err.Error()
		if e.err == "" {
			e.err = "<empty error>"
		}
	}
	e.from, e.to = tl.From(), tl.To()
	return e
}

// ---- input generation ----

const (
	stickyChars    = "+*/=<>!-&|#%~"
	nonStickyChars = "(){}[],:"
)

var badChars = []string{"$", "A", ".", "£", "Z", "_", "@", "?", "\\", "\r", "€", "\x80", "'"}

var strBody = []string{"a", " ", "1", ";", "$", "+", "\n", "\\\"", "\\\\", "\\n", "\\x", "(", "Q", "£"}

var cmtBody = []string{"a", " ", "\"", "$", ";", "1", "\\", "+", "Q"}

func genLexeme(tp *tape.Tape) string {
	switch tp.Pick(12) {
	case 0: // name
		n := tp.Range(1, 3)
		b := make([]byte, n)
		for i := range b {
			b[i] = byte('a' + tp.Draw(26))
		}
		return string(b)
	case 1:
		return " "
	case 2: // int literal
		n := tp.Range(1, 3)
		b := make([]byte, n)
		for i := range b {
			b[i] = byte('0' + tp.Draw(10))
		}
		return string(b)
	case 3: // operator
		n := tp.Range(1, 2)
		b := make([]byte, n)
		for i := range b {
			b[i] = stickyChars[tp.Draw(len(stickyChars))]
		}
		return string(b)
	case 4:
		return string(nonStickyChars[tp.Draw(len(nonStickyChars))])
	case 5:
		return "\n"
	case 6: // string literal, always closed, escapes always complete
		s := "\""
		for i, n := 0, tp.Range(0, 4); i < n; i++ {
			s += strBody[tp.Pick(len(strBody))]
		}
		return s + "\""
	case 7: // comment, always terminated by its newline
		s := ";"
		for i, n := 0, tp.Range(0, 4); i < n; i++ {
			s += cmtBody[tp.Pick(len(cmtBody))]
		}
		return s + "\n"
	case 8: // float literal
		return string(byte('0'+tp.Draw(10))) + "." + string(byte('0'+tp.Draw(10)))
	case 9: // a character the lexer rejects: an error entry gets cached
		return badChars[tp.Pick(len(badChars))]
	case 10:
		return "\t"
	default: // a keyword-ish name directly followed by a bracket
		return "if("
	}
}

func genInput(tp *tape.Tape) string {
	n := tp.Range(0, 12)
	if maxInputLen > maxInput {
		n = tp.Range(600, 1400)
	}
	b := make([]byte, 0, maxInput)
	for i := 0; i < n; i++ {
		lx := genLexeme(tp)
		if len(b)+len(lx) > maxInputLen-1 {
			break
		}
		b = append(b, lx...)
	}
	return string(append(b, '\n'))
}

// safeInput is an independent guard for the hazards that belong to other
// properties: the input must not end inside a string or comment, must end in
// a newline, must not contain NUL and must be short.
func safeInput(s string) bool {
	if len(s) == 0 || len(s) > maxInputLen || s[len(s)-1] != '\n' {
		return false
	}
	const (
		normal = iota
		comment
		str
		esc
	)
	st := normal
	for i := 0; i < len(s); i++ {
		c := s[i]
		if c == 0 {
			return false
		}
		switch st {
		case normal:
			if c == ';' {
				st = comment
			} else if c == '"' {
				st = str
			}
		case comment:
			if c == '\n' {
				st = normal
			}
		case str:
			if c == '"' {
				st = normal
			} else if c == '\\' {
				st = esc
			}
		case esc:
			st = str
		}
	}
	return st == normal
}

// scanModel is the model of a fresh scan of one input.
type scanModel struct {
	ents []scanEntry  // what every position shows (incl. TLexer.From/To)
	errs []error      // the error objects, for the simulated lexer of B2
	toks []token.Type // the token values, for the simulated lexer of B2
}

// plainScan scans input with the non-transactional lexer.Lexer. from/to of the
// entries are -1: the plain lexer does not export them.
func plainScan(input string) (m scanModel, sticky bool, pan any) {
	pan = guard(func() {
		l := lexer.NewLexer(input)
		n := 0
		for ; n < maxScanNext && l.Next(); n++ {
			e := scanEntry{kind: l.Token.Type, val: l.Token.Value, tfrom: l.Token.From(), tto: l.Token.To(), from: -1, to: -1}
			if l.Err != nil {
				e.err = errString(l.Err)
			}
			m.ents = append(m.ents, e)
			m.errs = append(m.errs, l.Err)
			m.toks = append(m.toks, l.Token)
		}
		sticky = n < maxScanNext
		for i := 0; i < 3 && sticky; i++ {
			if l.Next() {
				sticky = false
			}
		}
	})
	return
}

// nextOnlyScan is the simplest TLexer history: only Next, never a snapshot.
func nextOnlyScan(input string) (ents []scanEntry, sticky bool, pan any) {
	pan = guard(func() {
		tl := lexer.NewTLexer(input)
		n := 0
		for ; n < maxScanNext && tl.Next(); n++ {
			ents = append(ents, observe(&tl))
		}
		sticky = n < maxScanNext
		for i := 0; i < 3 && sticky; i++ {
			if tl.Next() {
				sticky = false
			}
		}
	})
	return
}

// freshScan builds the model. The tokens, errors and Next booleans come from
// the plain (non-transactional) lexer; TLexer.From/To, which the plain lexer
// does not export, come from a TLexer that is only ever advanced with Next.
// That Next-only run is itself a legal history, so it is checked against the
// plain scan first: a panic or a difference there is a C13 violation, not a
// reason to discard. Only a plain scan that panics or does not end is
// discarded (what the lexer emits for an input is C14's business).
func freshScan(input string, h *History) (m scanModel, discard string, viol *core.Violation) {
	m, sticky, pan := plainScan(input)
	if pan != nil {
		return m, "plain-scan-panic", nil
	}
	if !sticky {
		return m, "plain-scan-end-not-sticky", nil
	}
	ents, sticky, pan := nextOnlyScan(input)
	if pan != nil {
		return m, "", &core.Violation{Clause: "panic", History: h,
			Detail: fmt.Sprintf("a fresh TLexer advanced only with Next panicked after %d entries: %v; the plain lexer yields %d entries", len(ents), pan, len(m.ents))}
	}
	for i := 0; i < len(ents) && i < len(m.ents); i++ {
		e := ents[i]
		e.from, e.to = -1, -1
		if e != m.ents[i] {
			return m, "", &core.Violation{Clause: "A.next-only-history", History: h,
				Detail: fmt.Sprintf("entry %d: TLexer advanced only with Next shows %v, plain lexer %v", i, ents[i], m.ents[i])}
		}
	}
	if len(ents) != len(m.ents) || !sticky {
		return m, "", &core.Violation{Clause: "A.next-only-history", History: h,
			Detail: fmt.Sprintf("TLexer advanced only with Next yields %d entries (end sticky=%v), plain lexer %d", len(ents), sticky, len(m.ents))}
	}
	m.ents = ents
	return m, "", nil
}

// ---- part A ----

func runA(tp *tape.Tape, r *core.Result) {
	long := tp.Draw(64) == 63
	setLong(long)
	defer setLong(false)
	input := genInput(tp)
	nOps := tp.Range(0, maxOpsA)
	deepS := 0
	if tp.Draw(32) == 31 {
		deepS = tp.Range(14, 40) // that many ops of snapshots (4 in 5) and Next calls first: nesting deeper than any fixed-size stack one might keep inline
		nOps = maxOpsA
		r.Inc("F11.deep_snapshot_nesting", 1)
	}
	ops := make([]byte, nOps)
	depth := 0
	burst := 0
	if long {
		burst = tp.Range(2, 6) // that many 'B' ops (256 Next calls each) spread over the history
		r.Inc("F11.long_history", 1)
	}
	for i := range ops {
		if deepS > 0 && i < deepS {
			ops[i] = 'S'
			if i%5 == 4 {
				ops[i] = 'N'
			} else {
				depth++
			}
			continue
		}
		if burst > 0 && tp.Draw(4) == 0 {
			ops[i] = 'B'
			burst--
			continue
		}
		d := tp.Draw(20)
		op := byte('N')
		switch {
		case d < 8:
		case d < 13:
			op = 'S'
		case d < 17:
			op = 'R'
		default:
			op = 'C'
		}
		if (op == 'R' || op == 'C') && depth == 0 {
			op = 'N'
		}
		switch op {
		case 'S':
			depth++
		case 'R', 'C':
			depth--
		}
		ops[i] = op
	}
	h := &History{Part: "A", Input: input, Ops: string(ops)}
	r.Sample = h
	r.Key = h.key()
	r.Statements = nOps
	if !safeInput(input) {
		r.Discard = "unsafe-input"
		return
	}
	sm, discard, mv := freshScan(input, h)
	if discard != "" {
		r.Discard = discard
		r.Inc("discard."+discard, 1)
		return
	}
	if mv != nil {
		r.Violation = mv
		return
	}
	model := sm.ents

	th := core.NewHash().Str(input).Str(string(ops))
	var (
		viol       *core.Violation
		cur        = -1
		stack      []int
		high       = -1
		maxDepth   int
		rollbacks  int
		moved      int
		errReplay  int
		errCached  int
		nextCalls  int
		stepIdx    int
		stepOp     byte
		endReached bool
		endInOps   bool
	)
	fail := func(clause, detail string) {
		if viol == nil {
			viol = &core.Violation{Clause: clause, Detail: fmt.Sprintf("op#%d %c: %s", stepIdx, stepOp, detail), History: h}
		}
	}
	tl := lexer.NewTLexer(input)
	check := func(clause string) {
		if cur < 0 {
			return
		}
		got := observe(&tl)
		th = th.Int(int(got.kind)).Str(got.val).Str(got.err).Int(got.from).Int(got.to).Int(got.tfrom).Int(got.tto)
		if got != model[cur] {
			fail(clause, fmt.Sprintf("real=%v model[%d]=%v", got, cur, model[cur]))
		}
	}
	doNext := func(clause string) {
		nextCalls++
		got := tl.Next()
		want := cur+1 < len(model)
		th = th.Int(b2i(got))
		if want {
			cur++
			if cur <= high && model[cur].err != "" {
				errReplay++
			}
			if cur > high {
				high = cur
				if model[cur].err != "" {
					errCached++
				}
			}
		} else {
			endReached = true
		}
		if got != want {
			fail("A.next-bool", fmt.Sprintf("Next()=%v, fresh scan at entry %d of %d says %v", got, cur, len(model), want))
			return
		}
		check(clause)
	}
	pan := guard(func() {
		for i, op := range ops {
			stepIdx, stepOp = i, op
			if viol != nil || nextCalls >= maxNextA {
				return
			}
			switch op {
			case 'N':
				doNext("A.token-after-next")
			case 'B':
				for k := 0; k < 256 && viol == nil && nextCalls < maxNextA; k++ {
					doNext("A.token-after-next")
				}
			case 'S':
				tl.Snapshot()
				stack = append(stack, cur)
				if len(stack) > maxDepth {
					maxDepth = len(stack)
				}
				check("A.token-after-snapshot")
			case 'R':
				tl.Rollback()
				to := stack[len(stack)-1]
				stack = stack[:len(stack)-1]
				rollbacks++
				if to < cur {
					moved++
				}
				cur = to
				check("A.token-after-rollback")
			case 'C':
				tl.Commit()
				stack = stack[:len(stack)-1]
				check("A.token-after-commit")
			}
		}
		// drain: from wherever the history left the cursor, the rest of the
		// stream must be what the fresh scan produced, then Next stays false.
		endInOps = endReached
		stepOp, stepIdx = 'D', len(ops)
		for viol == nil && nextCalls < maxNextA && cur+1 < len(model) {
			doNext("A.token-in-drain")
			stepIdx++
		}
		for i := 0; i < 2 && viol == nil && nextCalls < maxNextA; i++ {
			doNext("A.token-in-drain") // past the end: false, and stays false
			stepIdx++
		}
	})
	if pan != nil && viol == nil {
		viol = &core.Violation{Clause: "panic", History: h,
			Detail: fmt.Sprintf("op#%d %c: real TLexer panicked: %v (model cursor %d of %d entries, %d snapshots open)", stepIdx, stepOp, pan, cur, len(model), len(stack))}
	}
	r.Violation = viol
	r.TraceHash = uint64(th)
	r.Inc("F11.rollback", rollbacks)
	r.Inc("F11.rollback_past_cached", moved)
	r.Inc("probe.cached_error_replayed", b2i(errReplay > 0))
	r.Inc("probe.error_entry_cached", b2i(errCached > 0))
	r.Inc("probe.nested_snapshot_depth>=2", b2i(maxDepth >= 2))
	r.Inc("probe.end_of_stream_reached_in_ops", b2i(endInOps))
	r.NonTrivial = maxDepth >= 2 && moved >= 1
}

func b2i(b bool) int {
	if b {
		return 1
	}
	return 0
}
