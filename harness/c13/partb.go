package c13

import (
	"errors"
	"fmt"
	"strconv"
	"strings"

	"github.com/paulsonkoly/calc/combinator"
	"github.com/paulsonkoly/calc/lexer"
	"github.com/paulsonkoly/calc/types/token"

	"verif/core"
	"verif/tape"
)

const (
	maxCallsB   = 20000 // hard cap on lexer calls per history
	maxDepthB   = 4
	maxNodesB   = 15
	maxTokensB1 = 10
	maxTokensB2 = 8
)

// callRec is one recorded lexer call and what it returned.
type callRec struct {
	op byte // N T E F O(=To) S C R
	n  int
	s  string
}

func (c callRec) String() string {
	switch c.op {
	case 'N':
		if c.n == 1 {
			return "N=t"
		}
		return "N=f"
	case 'T':
		return "T=" + c.s
	case 'E':
		if c.s == "" {
			return "E=-"
		}
		return "E=" + strconv.Quote(c.s)
	case 'F':
		return "F=" + strconv.Itoa(c.n)
	case 'O':
		return "To=" + strconv.Itoa(c.n)
	}
	return string(c.op)
}

func renderCalls(rec []callRec) string {
	var b strings.Builder
	for i, c := range rec {
		if i >= 400 {
			fmt.Fprintf(&b, " ...(%d more)", len(rec)-i)
			break
		}
		if i > 0 {
			b.WriteByte(' ')
		}
		b.WriteString(c.String())
	}
	return b.String()
}

func tokString(t combinator.Token) string {
	switch v := t.(type) {
	case token.Type:
		return strconv.Quote(v.Value) + "#" + strconv.Itoa(int(v.Type)) + "@" + strconv.Itoa(v.From()) + ":" + strconv.Itoa(v.To())
	case simTok:
		return string(v.letter) + "@" + strconv.Itoa(v.from) + ":" + strconv.Itoa(v.to)
	case nil:
		return "<nil>"
	}
	return fmt.Sprintf("<%T>", t)
}

func errString(e error) string {
	if e == nil {
		return ""
	}
	if s := e.Error(); s != "" {
		return s
	}
	return "<empty error>"
}

// ---- simulated RollbackLexer ----

type simEntry struct {
	tok      combinator.Token
	err      error
	from, to int
}

// simLexer serves a token array. pos is the number of successful Next calls
// net of rollbacks; the current token is ents[pos-1].
type simLexer struct {
	ents  []simEntry
	end   int // Next returns false at pos == end (end < len(ents) is a premature end)
	pos   int
	high  int
	stack []int
	rec   []callRec
	calls int

	anyNext     bool
	curReplay   bool
	inParser    bool
	base        int // snapshot depth when the parser under test started
	posAtReturn int // position when the parser under test returned

	hvClause, hvDetail string // first history-invariant violation

	errFired, endFired, endReached int
	rollbacks, moved, maxDepth     int
	errReplayed, noCur             int
}

func (s *simLexer) tick() {
	s.calls++
	if s.calls > maxCallsB {
		panic(capPanic{})
	}
}

func (s *simLexer) hv(clause, detail string) {
	if s.hvClause == "" {
		s.hvClause, s.hvDetail = clause, fmt.Sprintf("call#%d: %s", len(s.rec), detail)
	}
}

func (s *simLexer) Next() bool {
	s.tick()
	s.anyNext = true
	if s.pos >= s.end {
		if s.end < len(s.ents) {
			if s.inParser {
				s.endFired++
			}
		} else {
			s.endReached++
		}
		s.rec = append(s.rec, callRec{op: 'N'})
		return false
	}
	s.pos++
	s.curReplay = s.pos <= s.high
	if s.pos > s.high {
		s.high = s.pos
	}
	s.rec = append(s.rec, callRec{op: 'N', n: 1})
	return true
}

func (s *simLexer) query(what string) *simEntry {
	s.tick()
	if !s.anyNext {
		s.hv("B.hist.query-before-next", what+"() called before the first Next()")
	}
	if s.pos < 1 {
		s.noCur++
		return nil
	}
	return &s.ents[s.pos-1]
}

func (s *simLexer) Token() combinator.Token {
	var t combinator.Token = simTok{letter: '?'}
	if e := s.query("Token"); e != nil {
		t = e.tok
	}
	s.rec = append(s.rec, callRec{op: 'T', s: tokString(t)})
	return t
}

func (s *simLexer) Err() error {
	var err error
	if e := s.query("Err"); e != nil {
		err = e.err
	}
	if err != nil && s.inParser {
		s.errFired++
		if s.curReplay {
			s.errReplayed++
		}
	}
	s.rec = append(s.rec, callRec{op: 'E', s: errString(err)})
	return err
}

func (s *simLexer) From() int {
	v := 0
	if e := s.query("From"); e != nil {
		v = e.from
	}
	s.rec = append(s.rec, callRec{op: 'F', n: v})
	return v
}

func (s *simLexer) To() int {
	v := 0
	if e := s.query("To"); e != nil {
		v = e.to
	}
	s.rec = append(s.rec, callRec{op: 'O', n: v})
	return v
}

func (s *simLexer) Snapshot() {
	s.tick()
	s.stack = append(s.stack, s.pos)
	if len(s.stack) > s.maxDepth {
		s.maxDepth = len(s.stack)
	}
	s.rec = append(s.rec, callRec{op: 'S'})
}

// closable reports whether a Commit/Rollback has a snapshot of its own to close.
func (s *simLexer) closable(what string) bool {
	if len(s.stack) == 0 {
		s.hv("B.hist.close-without-snapshot", what+"() with no snapshot open")
		return false
	}
	if s.inParser && len(s.stack) <= s.base {
		s.hv("B.hist.close-without-snapshot", what+"() closes a snapshot the parser did not open")
	}
	return true
}

func (s *simLexer) Commit() {
	s.tick()
	if s.closable("Commit") {
		s.stack = s.stack[:len(s.stack)-1]
	}
	s.rec = append(s.rec, callRec{op: 'C'})
}

func (s *simLexer) Rollback() {
	s.tick()
	if s.closable("Rollback") {
		to := s.stack[len(s.stack)-1]
		s.stack = s.stack[:len(s.stack)-1]
		s.rollbacks++
		if to < s.pos {
			s.moved++
		}
		s.pos = to
		s.curReplay = true
	}
	s.rec = append(s.rec, callRec{op: 'R'})
}

func (s *simLexer) parserBoundary(begin bool) {
	if begin {
		s.inParser, s.base = true, len(s.stack)
		return
	}
	s.inParser = false
	s.posAtReturn = s.pos
	if len(s.stack) != s.base {
		s.hv("B.hist.snapshot-open-at-return", fmt.Sprintf("%d snapshot(s) still open when the top-level parser returned (had %d on entry)", len(s.stack), s.base))
	}
}

// ---- pass-through recording proxy around the real TLexer ----

type realProxy struct {
	tl    *lexer.TLexer
	rec   []callRec
	calls int
}

func (p *realProxy) tick() {
	p.calls++
	if p.calls > maxCallsB {
		panic(capPanic{})
	}
}

func (p *realProxy) Next() bool {
	p.tick()
	ok := p.tl.Next()
	p.rec = append(p.rec, callRec{op: 'N', n: b2i(ok)})
	return ok
}

func (p *realProxy) Token() combinator.Token {
	p.tick()
	t := p.tl.Token()
	p.rec = append(p.rec, callRec{op: 'T', s: tokString(t)})
	return t
}

func (p *realProxy) Err() error {
	p.tick()
	err := p.tl.Err()
	p.rec = append(p.rec, callRec{op: 'E', s: errString(err)})
	return err
}

func (p *realProxy) From() int {
	p.tick()
	v := p.tl.From()
	p.rec = append(p.rec, callRec{op: 'F', n: v})
	return v
}

func (p *realProxy) To() int {
	p.tick()
	v := p.tl.To()
	p.rec = append(p.rec, callRec{op: 'O', n: v})
	return v
}

func (p *realProxy) Snapshot() { p.tick(); p.tl.Snapshot(); p.rec = append(p.rec, callRec{op: 'S'}) }
func (p *realProxy) Commit()   { p.tick(); p.tl.Commit(); p.rec = append(p.rec, callRec{op: 'C'}) }
func (p *realProxy) Rollback() { p.tick(); p.tl.Rollback(); p.rec = append(p.rec, callRec{op: 'R'}) }

// ---- driver ----

// plan is the part of a B history around the parser run (empty in B1).
type plan struct {
	pre   []byte // 'N' or 'S'
	post  []byte // 'C' or 'R' for each outer snapshot, innermost first
	drain bool
}

type outcome struct {
	ok         bool
	nodes      []string
	emsg       string
	efrom, eto int
}

func (o outcome) String() string {
	if o.ok {
		return fmt.Sprintf("ok nodes=%q", o.nodes)
	}
	return fmt.Sprintf("fail err=%q@%d:%d", o.emsg, o.efrom, o.eto)
}

// drive applies the same externally visible call sequence to whichever lexer
// it is given. n is the stream length, start/refEnd the reference positions
// before/after the parser; they only decide when querying is legal.
func drive(lx combinator.RollbackLexer, p combinator.Parser, pl *plan, n, refEnd int, boundary func(bool)) (out outcome) {
	mpos := 0
	var mst []int
	q := func() {
		if mpos >= 1 {
			lx.Token()
			lx.Err()
			lx.From()
			lx.To()
		}
	}
	for _, op := range pl.pre {
		if op == 'N' {
			lx.Next()
			if mpos < n {
				mpos++
			}
			q()
		} else {
			lx.Snapshot()
			mst = append(mst, mpos)
		}
	}
	if boundary != nil {
		boundary(true)
	}
	nodes, err := p(lx)
	if boundary != nil {
		boundary(false)
	}
	if err == nil {
		out.ok, out.nodes = true, nodeStrings(nodes)
	} else {
		out.emsg, out.efrom, out.eto = err.Error(), err.From(), err.To()
	}
	mpos = refEnd
	q()
	for i := len(mst) - 1; i >= 0; i-- {
		if pl.post[len(mst)-1-i] == 'R' {
			lx.Rollback()
			mpos = mst[i]
		} else {
			lx.Commit()
		}
		q()
	}
	if pl.drain {
		for i, k := 0, n-mpos+2; i < k; i++ {
			if lx.Next() && mpos < n {
				mpos++
				q()
			}
		}
	}
	return out
}

func eqStrings(a, b []string) bool {
	if len(a) != len(b) {
		return false
	}
	for i := range a {
		if a[i] != b[i] {
			return false
		}
	}
	return true
}

// ---- part B ----

func runB(tp *tape.Tape, r *core.Result, tied bool) {
	h := &History{Part: "B1"}
	var (
		ents []simEntry
		end  int
		pl   plan
	)
	if tied {
		h.Part = "B2"
		// token stream = single-letter names, newlines and the odd rejected
		// character, separated by blanks, lexed by a fresh real scan
		n := tp.Range(0, maxTokensB2)
		var sb strings.Builder
		for i := 0; i < n; i++ {
			if i > 0 {
				sb.WriteByte(' ')
			}
			switch d := tp.Draw(12); {
			case d < 8:
				sb.WriteByte(byte('a' + d%4))
			case d < 10:
				sb.WriteByte('\n')
			case d == 10:
				sb.WriteByte('$')
			default:
				sb.WriteByte('A')
			}
		}
		sb.WriteByte('\n')
		h.Input = sb.String()
		for i, k := 0, tp.Range(0, 4); i < k; i++ {
			if tp.Draw(2) == 0 {
				pl.pre = append(pl.pre, 'N')
			} else {
				pl.pre = append(pl.pre, 'S')
				if tp.Draw(2) == 0 {
					pl.post = append(pl.post, 'C')
				} else {
					pl.post = append(pl.post, 'R')
				}
			}
		}
		pl.drain = true
		h.Pre, h.Post = string(pl.pre), string(pl.post)
	} else {
		n := tp.Range(0, maxTokensB1)
		ents = make([]simEntry, n)
		for i := range ents {
			ents[i] = simEntry{tok: simTok{letter: alphabet[tp.Draw(len(alphabet))], from: 2 * i, to: 2*i + 1}, from: 2 * i, to: 2*i + 1}
		}
		end = n
		// F10 fault plan; the zero tape injects nothing
		errAt, endAt := -1, -1
		if tp.Chance(1, 3) {
			errAt = tp.Draw(n)
		}
		if tp.Chance(1, 3) {
			endAt = tp.Draw(n)
		}
		if errAt >= 0 && errAt < n {
			ents[errAt].err = errors.New("injected lexer error at token " + strconv.Itoa(errAt))
			h.Faults += "lexer-error@" + strconv.Itoa(errAt) + " "
		}
		if endAt >= 0 && endAt < n {
			end = endAt
			h.Faults += "premature-end@" + strconv.Itoa(endAt)
		}
	}
	g := &pgen{tp: tp, budget: maxNodesB}
	root := g.gen(maxDepthB, false)
	h.Parser = root.String()
	r.Sample = h

	if tied {
		if !safeInput(h.Input) {
			r.Key = h.key()
			r.Discard = "unsafe-input"
			return
		}
		sm, discard, mv := freshScan(h.Input, h)
		if discard != "" || mv != nil {
			r.Key = h.key()
			r.Discard, r.Violation = discard, mv
			r.Inc("discard."+discard, b2i(discard != ""))
			return
		}
		ents = make([]simEntry, len(sm.ents))
		for i, e := range sm.ents {
			ents[i] = simEntry{tok: sm.toks[i], err: sm.errs[i], from: e.from, to: e.to}
		}
		end = len(ents)
	}
	// reference view of the stream
	rf := &ref{letters: make([]byte, len(ents)), errs: make([]bool, len(ents)), end: end}
	var tb strings.Builder
	for i, e := range ents {
		rf.letters[i] = letterOf(e.tok)
		rf.errs[i] = e.err != nil
		tb.WriteByte(rf.letters[i])
		if rf.errs[i] {
			tb.WriteByte('!')
		}
	}
	h.Tokens = tb.String()
	r.Key = h.key()

	start := 0
	for _, op := range pl.pre {
		if op == 'N' && start < end {
			start++
		}
	}
	wantOK, wantNodes, wantEnd := rf.eval(root, start, false)
	if rf.capped {
		r.Discard = "reference-step-cap"
		r.Inc("discard.step_cap", 1)
		return
	}

	// real combinators over the simulated lexer
	parser := build(root)
	sim := &simLexer{ents: ents, end: end}
	var got outcome
	pan := guard(func() { got = drive(sim, parser, &pl, end, wantEnd, sim.parserBoundary) })
	r.Statements = len(sim.rec)
	th := core.NewHash().Str(h.Parser).Str(h.Tokens).Str(h.Faults).Str(h.Pre).Str(h.Post)
	for _, c := range sim.rec {
		th = th.Int(int(c.op)).Int(c.n).Str(c.s)
	}
	th = th.Str(got.String())
	r.TraceHash = uint64(th)

	fail := func(clause, detail string) {
		h.Calls = renderCalls(sim.rec)
		r.Violation = &core.Violation{Clause: clause, Detail: detail, History: h}
	}
	if _, isCap := pan.(capPanic); isCap {
		r.Discard = "call-cap"
		r.Inc("discard.call_cap", 1)
		return
	}
	r.Inc("F10.lexer_error_injected", sim.errFired)
	r.Inc("F10.premature_end", sim.endFired)
	r.Inc("F11.rollback", sim.rollbacks)
	r.Inc("F11.rollback_past_cached", sim.moved)
	r.Inc("probe.cached_error_replayed", b2i(sim.errReplayed > 0))
	r.Inc("probe.nested_snapshot_depth>=2", b2i(sim.maxDepth >= 2))
	r.Inc("probe.end_of_tokens_reached", b2i(sim.endReached > 0))
	r.Inc("probe.query_with_no_current_token", b2i(sim.noCur > 0))
	r.Inc("probe.choice_in_repetition_failed_after_consuming", b2i(rf.probe > 0))
	r.Inc("probe.parser_succeeded", b2i(wantOK))
	r.NonTrivial = rf.probe > 0 && root.hasChoiceInRepetition(false)

	switch {
	case pan != nil:
		fail("panic", fmt.Sprintf("real combinators panicked over the simulated lexer: %v; reference: ok=%v nodes=%q pos=%d", pan, wantOK, wantNodes, wantEnd))
		return
	case sim.hvClause != "":
		fail(sim.hvClause, sim.hvDetail)
		return
	case got.ok != wantOK:
		fail("B.ref.success", fmt.Sprintf("real: %v at pos %d; reference: ok=%v nodes=%q pos=%d (start %d)", got, posAfterParser(sim, &pl), wantOK, wantNodes, wantEnd, start))
		return
	case wantOK && !eqStrings(got.nodes, wantNodes):
		fail("B.ref.nodes", fmt.Sprintf("real nodes=%q reference nodes=%q", got.nodes, wantNodes))
		return
	}
	if p := posAfterParser(sim, &pl); p != wantEnd {
		fail("B.ref.position", fmt.Sprintf("real: %v leaves the lexer at position %d; reference: ok=%v at position %d (start %d)", got, p, wantOK, wantEnd, start))
		return
	}
	if !tied {
		return
	}

	// the same real parser over the real TLexer, same outer ops
	tl := lexer.NewTLexer(h.Input)
	rp := &realProxy{tl: &tl}
	var got2 outcome
	pan = guard(func() { got2 = drive(rp, parser, &pl, end, wantEnd, nil) })
	for _, c := range rp.rec {
		th = th.Int(int(c.op)).Int(c.n).Str(c.s)
	}
	r.TraceHash = uint64(th.Str(got2.String()))
	failR := func(clause, detail string) {
		h.Calls = "sim: " + renderCalls(sim.rec) + " || real: " + renderCalls(rp.rec)
		r.Violation = &core.Violation{Clause: clause, Detail: detail, History: h}
	}
	if _, isCap := pan.(capPanic); isCap {
		failR("B2.call-cap", fmt.Sprintf("run over the real TLexer exceeded %d lexer calls; over the simulated lexer it took %d", maxCallsB, len(sim.rec)))
		return
	}
	if pan != nil {
		failR("panic", fmt.Sprintf("real combinators over the real TLexer panicked after %d lexer calls: %v; over the simulated lexer: %v", len(rp.rec), pan, got))
		return
	}
	for i := 0; i < len(sim.rec) && i < len(rp.rec); i++ {
		if sim.rec[i] != rp.rec[i] {
			failR("B2.trace-diverges", fmt.Sprintf("lexer call #%d: TLexer %s, simulated lexer over the fresh-scan token list %s", i, rp.rec[i], sim.rec[i]))
			return
		}
	}
	if len(sim.rec) != len(rp.rec) {
		failR("B2.trace-diverges", fmt.Sprintf("TLexer saw %d calls, simulated lexer %d", len(rp.rec), len(sim.rec)))
		return
	}
	if got2.ok != got.ok || !eqStrings(got2.nodes, got.nodes) || got2.emsg != got.emsg || got2.efrom != got.efrom || got2.eto != got.eto {
		failR("B2.outcome", fmt.Sprintf("over TLexer: %v; over the simulated lexer: %v", got2, got))
	}
}

// posAfterParser recovers the simulated lexer's position right after the
// parser returned from the recorded calls (outer ops follow it in B2). With an
// empty plan it is simply the final position.
func posAfterParser(sim *simLexer, pl *plan) int {
	return sim.posAtReturn
}
