package model

import (
	"reflect"
	"runtime"
	"testing"
	"time"
)

// run evaluates src in a session and returns the Display of the last value,
// the output and the runtime error.
func run(t *testing.T, in *Interp, src string) (string, string, *RunError) {
	t.Helper()
	vals, rerr, perr := in.EvalSrc(src)
	if perr != nil {
		t.Fatalf("parse error in %q: %v", src, perr)
	}
	last := "<none>"
	if len(vals) > 0 {
		last = Display(vals[len(vals)-1])
	}
	return last, in.TakeOutput(), rerr
}

type fact struct {
	name  string
	stdin string
	src   []string // statements of one session; the last one is checked
	val   string   // Display of the value of the last statement, "" when an error is expected
	out   string   // output of the whole session
	class string   // error class of the last statement
}

const (
	mapF    = "map = (f, it) -> for e <- it() yield f(e)"
	filterF = "filter = (p, it) -> for e <- it() if p(e) yield e"
	takeF   = "take = (n, it) -> {\n i = 0\n for e <- it() {\n if i >= n return 0\n yield e\n i = i + 1\n }\n}"
	natF    = "nat = () -> {\n i = 0\n while true {\n yield i\n i = i + 1\n }\n}"
	zipA    = "a = () -> {\n write(\"a0 \")\n yield 0\n write(\"a1 \")\n yield 1\n write(\"aend \")\n}"
	zipB    = "b = () -> {\n write(\"b0 \")\n yield 10\n write(\"bend \")\n}"
	lazyG   = "g = () -> {\n i = 0\n while i < 3 {\n write(\"y\" + toa(i) + \" \")\n yield i\n write(\"r\" + toa(i) + \" \")\n i = i + 1\n }\n write(\"gend \")\n}"
)

var facts = []fact{
	{name: "while", src: []string{"x=0", "while x<3 x=x+1"}, val: "3"},
	{name: "if false", src: []string{"if false 1"}, val: "nil"},
	{name: "empty for", src: []string{"for i <- fromto(0,0) i"}, val: "nil"},
	{name: "top level return in for", src: []string{"for i <- fromto(0,9) if i == 3 return i*2"}, val: "6"},
	{name: "iterator args evaluated once", src: []string{"n=3", "c=0", "for i <- fromto(0,n) {\nn=n+5\nc=c+1\n}", "[c, n]"}, val: "[3, 18]"},
	{name: "yield outside for", src: []string{"g = () -> {\nyield 4\n}", "g()"}, val: "4"},
	{name: "yield in block", src: []string{"{\nyield 4\n9\n}"}, val: "9"},
	{name: "fromto outside for", src: []string{"fromto(0,3)"}, val: "3"},
	{name: "fromto outside for, empty", src: []string{"fromto(3,0)"}, val: "nil"},
	{name: "recursive generator", src: []string{
		"walk = (n) -> if n > 0 {\n walk(n-1)\n yield n\n walk(n-1)\n}",
		"for e <- walk(3) write(e)"}, val: "nil", out: "1213121"},
	{name: "combinators", src: []string{mapF, filterF, takeF, natF,
		"for e <- take(4, () -> map((x) -> x*x, () -> filter((x) -> x % 2 == 0, nat))) write(toa(e) + \" \")"},
		val: "nil", out: "0 4 16 36 "},
	{name: "zip", src: []string{zipA, zipB, "for i, j <- a(), b() write(toa(i) + \":\" + toa(j) + \" \")"},
		val: "nil", out: "a0 b0 0:10 a1 bend "},
	{name: "lazy", src: []string{lazyG, "for e <- g() write(\"b\" + toa(e) + \" \")"},
		val: "nil", out: "y0 b0 r0 y1 b1 r1 y2 b2 r2 gend "},
	{name: "lazy return", src: []string{lazyG, "for e <- g() {\n write(\"b\" + toa(e) + \" \")\n if e == 1 return 7\n}"},
		val: "7", out: "y0 b0 r0 y1 b1 "},
	{name: "cross product", src: []string{"for i <- fromto(1,3) {\n for j <- elems(\"ab\") {\n write(toa(i) + \" \" + j + \"\\n\")\n }\n}"},
		val: "nil", out: "1 a\n1 b\n2 a\n2 b\n"},
	{name: "indices", src: []string{"for i, e <- indices([7,8]), elems([7,8]) write(toa(i) + \"=\" + toa(e) + \" \")"}, val: "nil", out: "0=7 1=8 "},
	{name: "readme isprime", src: []string{
		"all = (iter, f) -> {\n for e <- iter() if !f(e) return false\n true\n}",
		"isprime = (n) -> {\n if n < 2 return false\n all(() -> fromto(2, n/2+1), (i) -> n % i != 0)\n}",
		"[isprime(13), isprime(15)]"}, val: "[true, false]"},
	{name: "closure", src: []string{"f = (n) -> {\n a = 1\n (b) -> a + b + n\n}", "foo = f(2)", "foo(3)"}, val: "6"},
	{name: "closure shares variables", src: []string{"f = () -> {\n x = 1\n g = () -> x\n x = 2\n g\n}", "g = f()", "g()"}, val: "2"},
	{name: "closure one level", src: []string{"f = (x) -> {\n (y) -> {\n (z) -> x + y + z\n }\n}",
		"first = f(1)", "second = first(2)", "second(3)"}, class: ErrNil},
	{name: "closure explicit copy", src: []string{"f = (x) -> {\n (y) -> {\n x = x\n (z) -> x + y + z\n }\n}",
		"first = f(1)", "second = first(2)", "second(3)"}, val: "6"},
	{name: "shadowing call", src: []string{"a = 13", "f = (n) -> {\n a = a+1\n}", "f(1)"}, val: "14"},
	{name: "shadowing global", src: []string{"a = 13", "f = (n) -> {\n a = a+1\n}", "f(1)", "a"}, val: "13"},
	{name: "recursion", src: []string{"f = (n) -> if n <= 0 0 else n + f(n-1)", "f(5)"}, val: "15"},
	{name: "for in function copies locals", src: []string{
		"f = () -> {\n n = 3\n c = 0\n for i <- fromto(0, n) {\n n = n + 5\n c = c + 1\n }\n [c, n]\n}", "f()"}, val: "[3, 18]"},
	{name: "closure created before the loop", src: []string{
		"f = () -> {\n k = 1\n g = () -> {\n yield k\n yield k\n }\n r = []\n for e <- g() {\n k = k + 1\n r = r + [e]\n }\n r\n}", "f()"}, val: "[1, 2]"}, // g was created by the original activation and shares its variables
	{name: "coroutine works on a copy of the locals", src: []string{
		"it = (f) -> {\n yield f()\n yield f()\n}",
		"h = () -> {\n k = 1\n r = []\n for e <- it(() -> k) {\n k = k + 100\n r = r + [e]\n }\n r + [k]\n}", "h()"}, val: "[1, 1, 201]"},
	{name: "printing", src: []string{"[1, 2.5, \"s\", true, (x) -> x, [3.0]]"}, val: "[1, 2.5, s, true, function, [3]]"},
	{name: "string display", src: []string{"\"apple\"[1:3]"}, val: "\"pp\""},
	{name: "length binds weaker than index", src: []string{"#[[1,1,1]][0]"}, val: "3"},
	{name: "equality", src: []string{"[1 == 1.0, [1, 2] == [1.0, 2], write == write, write != write, 1 == \"1\", 1-2+1]"},
		val: "[true, true, false, true, false, 0]"},
	{name: "no short circuit", src: []string{"t = (x) -> {\n write(x)\n x\n}", "t(false) && t(true)"}, val: "false", out: "falsetrue"},
	{name: "division by zero", src: []string{"1/0"}, class: ErrZeroDiv},
	{name: "modulo zero", src: []string{"1%0"}, class: ErrZeroDiv},
	{name: "float division", src: []string{"1/0.0"}, val: "+Inf"},
	{name: "type error", src: []string{"1+\"a\""}, class: ErrType},
	{name: "assign nil", src: []string{"x = nope"}, class: ErrNil},
	{name: "nil operand", src: []string{"nope == 1"}, class: ErrNil},
	{name: "if nil", src: []string{"if nope 1"}, class: ErrType},
	{name: "index error", src: []string{"[1,2][5]"}, class: ErrIndex},
	{name: "slice error", src: []string{"\"abc\"[2:1]"}, class: ErrIndex},
	{name: "index nil", src: []string{"nope[0]"}, class: ErrType},
	{name: "index by nil", src: []string{"1[nope]"}, class: ErrNil},
	{name: "arity", src: []string{"f=(a)->a", "f(1,2)"}, class: ErrArity},
	{name: "builtin arity", src: []string{"fromto(1)"}, class: ErrArity},
	{name: "call non function", src: []string{"x=1", "x()"}, class: ErrType},
	{name: "conversion", src: []string{"aton(\"zz\")"}, class: ErrConversion},
	{name: "aton type", src: []string{"aton(1)"}, class: ErrType},
	{name: "aton", src: []string{"[aton(\"12\"), aton(\"1.5\")]"}, val: "[12, 1.5]"},
	{name: "read empty", src: []string{"read()"}, class: ErrRead},
	{name: "read", stdin: "l1\nl2\n", src: []string{"[read(), read()]"}, val: "[l1\n, l2\n]"},
	{name: "read partial line", stdin: "l1\nl2", src: []string{"read()", "read()"}, class: ErrRead},
	{name: "rebound builtin", src: []string{"toa = (x) -> 5", "toa(1)"}, val: "5"},
	{name: "error in generator", src: []string{"for i <- fromto(0, \"x\") i"}, class: ErrType},
	{name: "unary minus", src: []string{"-\"a\""}, class: ErrType},
	{name: "nil loop variable", src: []string{"g = () -> {\n yield nope\n}", "for i <- g() 1"}, class: ErrNil},
	{name: "nil array element and argument pass through", src: []string{"p = (a, b) -> toa(a) + toa([b])", "p(nope, nope)"}, val: "\"nil[nil]\""},
	{name: "shifts work on the bit pattern", src: []string{"[1 << 3, -8 >> 1, 1 << 64, 1 << -1, -1 >> 63]"}, val: "[8, 9223372036854775804, 0, 0, 1]"},
}

func TestFacts(t *testing.T) {
	for _, f := range facts {
		t.Run(f.name, func(t *testing.T) {
			before := runtime.NumGoroutine()
			in := New()
			in.Stdin = []byte(f.stdin)
			var val, out string
			var err *RunError
			for i, s := range f.src {
				v, o, e := run(t, in, s)
				val, out, err = v, out+o, e
				if e != nil && i != len(f.src)-1 {
					t.Fatalf("statement %d %q: unexpected %v", i, s, e)
				}
			}
			switch {
			case f.class != "" && (err == nil || err.Class != f.class):
				t.Errorf("error: got %v, want %q", err, f.class)
			case f.class == "" && err != nil:
				t.Errorf("unexpected error %v", err)
			case f.class == "" && val != f.val:
				t.Errorf("value: got %s, want %s", val, f.val)
			}
			if out != f.out {
				t.Errorf("output: got %q, want %q", out, f.out)
			}
			if after := runtime.NumGoroutine(); after != before {
				t.Errorf("goroutines: %d before, %d after", before, after)
			}
		})
	}
}

func TestBacktrace(t *testing.T) {
	in := New()
	_, out, err := run(t, in, "f = () -> {\n yield 1\n 1/0\n yield 2\n}\n"+
		"g = (x) -> {\n for i <- f() {\n write(toa(i+x) + \"\\n\")\n }\n}\n"+
		"h = () -> g(13)\nh()")
	want := &RunError{
		Class:    ErrZeroDiv,
		Operands: []string{"1", "0"},
		Stacks:   [][]Frame{{{"f", []string{}}, {"g", []string{"13"}}}, {{"g", []string{"13"}}, {"h", []string{}}}},
	}
	if err != nil {
		err.Op = ""
	}
	if !reflect.DeepEqual(err, want) {
		t.Errorf("got %+v, want %+v", err, want)
	}
	if out != "14\n" {
		t.Errorf("output %q", out)
	}

	// parameters are reported with their current values; builtins are calls too;
	// a coroutine created at top level has no seed entry.
	_, _, err = run(t, in, "k = (p, q) -> {\n p = p + 1\n for i <- fromto(q, \"abcdefghijklmnopqrstuvwxyz\") i\n}\nfor e <- k(1, 2) e")
	want = &RunError{
		Class:    ErrType,
		Operands: []string{"2", "abcdefghijklmnopq..."},
		Stacks: [][]Frame{
			{{"fromto", []string{"2", "abcdefghijklmnopq..."}}, {"k", []string{"2", "2"}}},
			{{"k", []string{"2", "2"}}},
			{},
		},
	}
	if err != nil {
		err.Op = ""
	}
	if !reflect.DeepEqual(err, want) {
		t.Errorf("got %+v, want %+v", err, want)
	}

	// -x is -1 * x
	_, _, err = run(t, in, "-true")
	want = &RunError{Class: ErrType, Operands: []string{"-1", "true"}, Stacks: [][]Frame{{}}}
	if err != nil {
		err.Op = ""
	}
	if !reflect.DeepEqual(err, want) {
		t.Errorf("got %+v, want %+v", err, want)
	}

	_, _, err = run(t, in, "aton([1])")
	want = &RunError{Class: ErrType, Operands: []string{"[1]"}, Stacks: [][]Frame{{{"aton", []string{"[1]"}}}}}
	if err != nil {
		err.Op = ""
	}
	if !reflect.DeepEqual(err, want) {
		t.Errorf("got %+v, want %+v", err, want)
	}
}

func TestSession(t *testing.T) {
	in := New()
	if names := in.GlobalNames(); len(names) != 0 {
		t.Errorf("fresh session has globals %v", names)
	}
	_, _, err := run(t, in, "a = 1\nif true {\n c = 2\n 1/0\n}\nd = 3")
	if err == nil || err.Class != ErrZeroDiv {
		t.Fatalf("got %v", err)
	}
	if got := in.GlobalNames(); !reflect.DeepEqual(got, []string{"a", "c"}) {
		t.Errorf("globals %v", got)
	}
	if v, ok := in.Global("c"); !ok || Display(v) != "2" {
		t.Errorf("c = %v %v", v, ok)
	}
	if v, _, err := run(t, in, "write = 5\na + c + write"); err != nil || v != "8" {
		t.Errorf("got %v %v", v, err)
	}
	if got := in.GlobalNames(); !reflect.DeepEqual(got, []string{"a", "c", "write"}) {
		t.Errorf("globals %v", got)
	}
	if _, _, perr := in.EvalSrc("1+)"); perr == nil {
		t.Errorf("no parse error")
	}
}

func TestBudget(t *testing.T) {
	in := New()
	in.Budget = 10000
	if _, _, err := run(t, in, "while true 1"); err == nil || err.Class != ErrBudget {
		t.Errorf("got %v", err)
	}
	if v, _, err := run(t, in, "1+1"); err != nil || v != "2" { // the budget is per Eval
		t.Errorf("got %v %v", v, err)
	}
	if _, _, err := run(t, in, "for i <- fromto(0, 1000000) for j <- fromto(0, 1000000) j"); err == nil || err.Class != ErrBudget {
		t.Errorf("got %v", err)
	}
	in.Budget, in.MaxDepth = 0, 1000
	if _, _, err := run(t, in, "f = (n) -> f(n+1)\nf(0)"); err == nil || err.Class != ErrBudget || len(err.Stacks[0]) != 1000 {
		t.Errorf("got %v", err)
	}
	if _, _, err := run(t, in, "w = (n) -> for e <- w(n+1) yield e\nw(0)"); err == nil || err.Class != ErrBudget {
		t.Errorf("got %v", err)
	}
	in.MaxDepth = 100000
	if _, _, err := run(t, in, "for e <- w(0) e"); err == nil || err.Class != ErrBudget || len(err.Stacks) != in.MaxLive+1 {
		t.Errorf("got %v", err)
	}
	if v, _, err := run(t, in, "s = (n) -> if n <= 0 0 else n + s(n-1)\ns(90000)"); err != nil || v != "4050045000" {
		t.Errorf("got %v %v", v, err)
	}
}

func TestNoGoroutineLeak(t *testing.T) {
	in := New()
	run(t, in, natF+"\n"+mapF+"\n"+takeF+"\nbad = () -> {\n yield 1\n 1/0\n}")
	srcs := []string{
		"for i, j <- nat(), fromto(0, 3) j",                              // abandoned by exhaustion of a later member
		"for i <- nat() if i == 2 return i",                              // abandoned by return
		"for i <- take(3, () -> map((x) -> x, nat)) i",                   // nested abandonment
		"for i, j <- nat(), bad() j",                                     // abandoned by an error in another member
		"for i <- nat() for j <- nat() if j == 2 1/0",                    // error in the body
		"for i <- map((x) -> for k <- nat() if k > x return 1/0, nat) i", // error below a suspended coroutine
	}
	before := runtime.NumGoroutine()
	for i := 0; i < 10000; i++ {
		if _, _, perr := in.EvalSrc(srcs[i%len(srcs)]); perr != nil {
			t.Fatal(perr)
		}
	}
	if after := runtime.NumGoroutine(); after > before {
		t.Errorf("goroutines: %d before, %d after", before, after)
	}
	if in.Abandoned == 0 || in.Coroutines == 0 || in.Yields == 0 || in.Resumes == 0 {
		t.Errorf("counters %d %d %d %d", in.Coroutines, in.Abandoned, in.Yields, in.Resumes)
	}
	t.Logf("coroutines %d abandoned %d yields %d resumes %d", in.Coroutines, in.Abandoned, in.Yields, in.Resumes)
}

func TestThroughput(t *testing.T) {
	in := New()
	run(t, in, "fib = (n) -> if n < 2 n else fib(n-1) + fib(n-2)")
	for _, src := range []string{"fib(24)", "s = 0\nfor i <- fromto(0, 200000) s = s + i"} {
		steps, start := in.Steps, time.Now()
		if _, _, err := run(t, in, src); err != nil {
			t.Fatal(err)
		}
		d := time.Since(start)
		rate := float64(in.Steps-steps) / d.Seconds()
		t.Logf("%q: %d steps in %v: %.1fM steps/s", src, in.Steps-steps, d, rate/1e6)
		if rate < 1e6 && !testing.Short() {
			t.Errorf("%q: only %.0f steps/s", src, rate)
		}
	}
}
