// Package model is a small definitional reference interpreter for the calc
// language. It walks the syntax tree produced by the real parser and follows
// the language description (Readme.md) directly: there is no byte code, no
// value stack and no frame arithmetic. It serves as an oracle for the real
// implementation.
package model

import (
	"fmt"
	"math"
	"strconv"
	"strings"

	"github.com/paulsonkoly/calc/types/node"
)

// Kind is the dynamic type of a Value.
type Kind uint8

// Value kinds. The zero Value is nil (absence of value).
const (
	KNil Kind = iota
	KInt
	KFloat
	KBool
	KString
	KArray
	KFunc
)

// Value is a calc value. Values are immutable.
type Value struct {
	K   Kind
	n   uint64 // int (two's complement), float (IEEE bits), bool (0/1)
	s   string // string (bytes)
	ref *ref   // array or function
}

type ref struct {
	a  []Value // array elements, never mutated after construction
	fn *Func   // function
}

// Func is a function value: a user function (body + defining activation) or a
// native builtin.
type Func struct {
	params []string
	body   node.Type
	env    *activation // activation that created the function value, nil at top level
	native func(in *Interp, a *activation) Value
}

// Nil is the absence of a value.
var Nil = Value{}

// Constructors.
func Int(i int) Value        { return Value{K: KInt, n: uint64(i)} }
func Float(f float64) Value  { return Value{K: KFloat, n: math.Float64bits(f)} }
func Str(s string) Value     { return Value{K: KString, s: s} }
func Array(a []Value) Value  { return Value{K: KArray, ref: &ref{a: a}} }
func function(f *Func) Value { return Value{K: KFunc, ref: &ref{fn: f}} }
func Bool(b bool) Value {
	if b {
		return Value{K: KBool, n: 1}
	}
	return Value{K: KBool}
}

// Accessors (no type check, zero values for the wrong kind are meaningless).
func (v Value) Int() int       { return int(v.n) }
func (v Value) Float() float64 { return math.Float64frombits(v.n) }
func (v Value) Bool() bool     { return v.n != 0 }
func (v Value) Str() string    { return v.s }
func (v Value) Elems() []Value {
	if v.K != KArray {
		return nil
	}
	return v.ref.a
}

// IsNil tells whether v is the nil value.
func IsNil(v Value) bool { return v.K == KNil }

// String renders v the way write and toa do.
func String(v Value) string {
	switch v.K {
	case KNil:
		return "nil"
	case KInt:
		return strconv.Itoa(v.Int())
	case KFloat:
		return fmt.Sprint(v.Float())
	case KBool:
		return strconv.FormatBool(v.Bool())
	case KString:
		return v.s
	case KFunc:
		return "function"
	case KArray:
		var sb strings.Builder
		sb.WriteByte('[')
		for i, e := range v.ref.a {
			if i > 0 {
				sb.WriteString(", ")
			}
			sb.WriteString(String(e))
		}
		sb.WriteByte(']')
		return sb.String()
	}
	panic("model: unknown value kind")
}

// Display renders v the way the REPL prints results: a top level string is quoted.
func Display(v Value) string {
	if v.K == KString {
		return "\"" + v.s + "\""
	}
	return String(v)
}

// Abbrev renders v for error reports: at most 20 bytes.
func Abbrev(v Value) string {
	s := String(v)
	if len(s) > 20 {
		return s[:17] + "..."
	}
	return s
}

// Error classes.
const (
	ErrNil        = "nil error"
	ErrType       = "type error"
	ErrZeroDiv    = "division by zero"
	ErrIndex      = "index error"
	ErrArity      = "arity mismatch"
	ErrConversion = "conversion error"
	ErrRead       = "read error"
	ErrBudget     = "budget"
)

// nilOrType is the error of an operator applied to a type pairing it is not
// defined for: nil error if any operand is nil, type error otherwise.
func nilOrType(vs ...Value) string {
	for _, v := range vs {
		if v.K == KNil {
			return ErrNil
		}
	}
	return ErrType
}

func isNum(v Value) bool { return v.K == KInt || v.K == KFloat }

func toFloat(v Value) float64 {
	if v.K == KInt {
		return float64(v.Int())
	}
	return v.Float()
}

// binary applies binary operator op. The second result is an error class or "".
func binary(op string, l, r Value) (Value, string) {
	switch op {
	case "+", "-", "*", "/":
		switch {
		case l.K == KInt && r.K == KInt:
			x, y := l.Int(), r.Int()
			switch op {
			case "+":
				return Int(x + y), ""
			case "-":
				return Int(x - y), ""
			case "*":
				return Int(x * y), ""
			}
			if y == 0 {
				return Nil, ErrZeroDiv
			}
			return Int(x / y), ""
		case isNum(l) && isNum(r): // at least one float: the int is converted
			x, y := toFloat(l), toFloat(r)
			switch op {
			case "+":
				return Float(x + y), ""
			case "-":
				return Float(x - y), ""
			case "*":
				return Float(x * y), ""
			}
			return Float(x / y), ""
		case l.K == KString && r.K == KString:
			if op != "+" {
				return Nil, ErrType
			}
			return Str(l.s + r.s), ""
		case l.K == KArray && r.K == KArray:
			if op != "+" {
				return Nil, ErrType
			}
			x, y := l.ref.a, r.ref.a
			return Array(append(append(make([]Value, 0, len(x)+len(y)), x...), y...)), ""
		}
	case "%":
		if l.K == KInt && r.K == KInt {
			if r.Int() == 0 {
				return Nil, ErrZeroDiv
			}
			return Int(l.Int() % r.Int()), ""
		}
	case "<<", ">>":
		// shifts work on the 64 bit pattern: >> is a logical shift, and a
		// count outside 0..63 (including negative counts) shifts everything out.
		if l.K == KInt && r.K == KInt {
			if op == "<<" {
				return Int(int(l.n << r.n)), ""
			}
			return Int(int(l.n >> r.n)), ""
		}
	case "&", "&&", "|", "||":
		and := op[0] == '&'
		switch {
		case l.K == KInt && r.K == KInt:
			if and {
				return Int(int(l.n & r.n)), ""
			}
			return Int(int(l.n | r.n)), ""
		case l.K == KBool && r.K == KBool:
			if and {
				return Bool(l.Bool() && r.Bool()), ""
			}
			return Bool(l.Bool() || r.Bool()), ""
		}
	case "<", ">", "<=", ">=":
		switch {
		case l.K == KInt && r.K == KInt:
			return Bool(relate(op, l.Int(), r.Int())), ""
		case isNum(l) && isNum(r):
			return Bool(relate(op, toFloat(l), toFloat(r))), ""
		}
	case "==", "!=":
		eq, cls := weakEq(l, r)
		if cls != "" {
			return Nil, cls
		}
		return Bool(eq == (op == "==")), ""
	default:
		panic("model: unknown binary operator " + op)
	}
	return Nil, nilOrType(l, r)
}

func relate[T int | float64](op string, x, y T) bool {
	switch op {
	case "<":
		return x < y
	case ">":
		return x > y
	case "<=":
		return x <= y
	}
	return x >= y
}

// weakEq is the language level equality.
func weakEq(l, r Value) (bool, string) {
	switch {
	case l.K == KInt && r.K == KFloat:
		return float64(l.Int()) == r.Float(), ""
	case l.K == KFloat && r.K == KInt:
		return l.Float() == float64(r.Int()), ""
	case l.K == KArray && r.K == KArray:
		x, y := l.ref.a, r.ref.a
		if len(x) != len(y) {
			return false, ""
		}
		for i := range x {
			if eq, cls := weakEq(x[i], y[i]); !eq {
				return false, cls
			}
		}
		return true, ""
	case l.K == KFunc && r.K == KFunc:
		return false, ""
	case l.K == KNil || r.K == KNil:
		return false, ErrNil
	case l.K != r.K:
		return false, ""
	}
	switch l.K {
	case KInt, KBool:
		return l.n == r.n, ""
	case KFloat:
		return l.Float() == r.Float(), ""
	case KString:
		return l.s == r.s, ""
	}
	panic("model: unreachable equality")
}

// unary applies unary operator op.
func unary(op string, v Value) (Value, string) {
	switch op {
	case "-": // -x is -1 * x
		return binary("*", Int(-1), v)
	case "#":
		switch v.K {
		case KString:
			return Int(len(v.s)), ""
		case KArray:
			return Int(len(v.ref.a)), ""
		}
	case "!":
		if v.K == KBool {
			return Bool(!v.Bool()), ""
		}
	case "~":
		if v.K == KInt {
			return Int(^v.Int()), ""
		}
	default:
		panic("model: unknown unary operator " + op)
	}
	return Nil, nilOrType(v)
}

// index implements x[i] (one index) and x[i:j] (two indices).
func index(x Value, ix ...Value) (Value, string) {
	var at [2]int
	for i, v := range ix {
		switch v.K {
		case KInt:
			at[i] = v.Int()
		case KNil:
			return Nil, ErrNil
		default:
			return Nil, ErrType
		}
	}
	var n int
	switch x.K {
	case KString:
		n = len(x.s)
	case KArray:
		n = len(x.ref.a)
	default:
		return Nil, ErrType
	}
	if len(ix) == 1 {
		if at[0] < 0 || at[0] >= n {
			return Nil, ErrIndex
		}
		if x.K == KString {
			return Str(x.s[at[0] : at[0]+1]), ""
		}
		return x.ref.a[at[0]], ""
	}
	if at[0] < 0 || at[0] > at[1] || at[1] > n {
		return Nil, ErrIndex
	}
	if x.K == KString {
		return Str(x.s[at[0]:at[1]]), ""
	}
	return Array(x.ref.a[at[0]:at[1]:at[1]]), ""
}
