package model

import (
	"bytes"
	"iter"
	"math"
	"sort"
	"strings"

	"github.com/paulsonkoly/calc/parser"
	"github.com/paulsonkoly/calc/types/node"
)

// Frame is one active call in an error report.
type Frame struct {
	Name string   // name the callee was called by at the call site
	Args []string // current values of the parameters, Abbrev rendered
	Full []string // the same values rendered in full
}

// RunError is a runtime error report.
type RunError struct {
	Class    string    // error class, one of the Err* constants
	Operands []string  // operands of the failing operation, Abbrev rendered
	FullOps  []string  // the same operands rendered in full
	Op       string    // failing operation: a binary operator, "u"+unary operator, index, slice, assign, call, cond, aton, read
	Stacks   [][]Frame // per coroutine (failing one first, main last) calls innermost first
}

func (e *RunError) Error() string {
	if len(e.Operands) == 0 {
		return e.Class
	}
	return e.Class + " (" + strings.Join(e.Operands, ", ") + ")"
}

// activation holds the own variables of one function call.
type activation struct {
	names  []string
	vals   []Value
	parent *activation // activation that created the called function value
}

func (a *activation) get(name string) (Value, bool) {
	for i, n := range a.names {
		if n == name {
			return a.vals[i], true
		}
	}
	return Nil, false
}

func (a *activation) set(name string, v Value) {
	for i, n := range a.names {
		if n == name {
			a.vals[i] = v
			return
		}
	}
	a.names = append(a.names, name)
	a.vals = append(a.vals, v)
}

func (a *activation) clone() *activation {
	return &activation{
		names:  append(make([]string, 0, len(a.names)+2), a.names...),
		vals:   append(make([]Value, 0, len(a.vals)+2), a.vals...),
		parent: a.parent,
	}
}

// call is an active call of a coroutine.
type call struct {
	name string
	fn   *Func
	act  *activation
}

// coro is a coroutine: main, or one iterator of a for loop.
type coro struct {
	parent *coro  // coroutine executing the owning for loop, nil for main
	calls  []call // active calls, outermost first; calls[0] of a non main coroutine may be the seed
	depth  int    // nesting depth of calls including the creators'
	done   bool   // finished (or never to be resumed)
	err    *RunError
	yield  func(Value) bool
	next   func() (Value, bool)
	stop   func()
}

// abandoned is the panic value that unwinds a coroutine that was stopped.
type abandoned struct{}

// Interp is a calc session.
type Interp struct {
	Stdin    []byte       // input for read()
	Out      bytes.Buffer // output of write()
	Budget   int64        // steps allowed per Eval, <= 0 is unlimited
	MaxDepth int          // call nesting limit, exceeding it is a "budget" error
	MaxLive  int          // limit of simultaneously live coroutines, exceeding it is a "budget" error
	Steps    int64        // total evaluated nodes
	op       string       // operation about to fail (reported in RunError.Op)

	// coverage counters
	Yields     int // yields handed to a for loop
	Resumes    int // resumptions of a suspended coroutine
	Coroutines int // coroutines created
	Abandoned  int // coroutines dropped before they finished

	globals  map[string]Value
	pristine map[string]bool // builtins never rebound by user code
	main     *coro
	cur      *coro
	limit    int64
	live     int // coroutines whose goroutine has not ended
}

// New creates a session with the builtins bound.
func New() *Interp {
	in := &Interp{MaxDepth: 100000, MaxLive: 10000, globals: map[string]Value{}, pristine: map[string]bool{}}
	in.main = &coro{}
	in.cur = in.main
	in.loadBuiltins()
	return in
}

// Eval evaluates one top level node.
func (in *Interp) Eval(n node.Type) (v Value, err *RunError) {
	in.main.calls, in.main.depth = in.main.calls[:0], 0
	in.cur = in.main
	in.limit = math.MaxInt64
	if in.Budget > 0 && in.Budget < math.MaxInt64-in.Steps {
		in.limit = in.Steps + in.Budget
	}
	defer func() {
		in.cur = in.main
		if r := recover(); r != nil {
			re, ok := r.(*RunError)
			if !ok {
				panic(r)
			}
			v, err = Nil, re
		}
	}()
	v, _ = in.eval(n, nil) // a top level return just ends the statement
	return v, nil
}

// EvalSrc parses src with the real parser and evaluates the statements in
// order; it stops at the first error. The real parser takes one top level
// statement at a time, so src is cut where a line ends outside of any block,
// array literal and string, the way the REPL collects its input.
func (in *Interp) EvalSrc(src string) ([]Value, *RunError, error) {
	var vals []Value
	for _, stmt := range SplitStatements(src) {
		nodes, perr := parser.Parse(stmt)
		if perr != nil {
			return vals, nil, perr
		}
		for _, n := range nodes {
			v, err := in.Eval(n)
			if err != nil {
				return vals, err, nil
			}
			vals = append(vals, v)
		}
	}
	return vals, nil, nil
}

// SplitStatements cuts a source text into top level statements, each
// terminated by a new line. Blank and comment only lines between statements
// are dropped.
func SplitStatements(src string) []string {
	var stmts []string
	var inString, inComment, blank = false, false, true
	start, open := 0, 0
	flush := func(end int) {
		if !blank {
			stmts = append(stmts, src[start:end]+"\n")
		}
		start, blank = end+1, true
	}
	for i := 0; i < len(src); i++ {
		c := src[i]
		switch {
		case inString:
			if c == '\\' {
				i++
			} else if c == '"' {
				inString = false
			}
		case c == '\n':
			inComment = false
			if open <= 0 {
				flush(i)
				open = 0
			}
		case inComment:
		case c == ';':
			inComment = true
		case c == '"':
			inString, blank = true, false
		case c == '{' || c == '[':
			open++
			blank = false
		case c == '}' || c == ']':
			open--
			blank = false
		case c != ' ' && c != '\t' && c != '\r':
			blank = false
		}
	}
	if start < len(src) {
		flush(len(src))
	}
	return stmts
}

// TakeOutput returns and clears the output written so far.
func (in *Interp) TakeOutput() string {
	s := in.Out.String()
	in.Out.Reset()
	return s
}

// Global looks up a global variable.
func (in *Interp) Global(name string) (Value, bool) {
	v, ok := in.globals[name]
	return v, ok
}

// GlobalNames lists the globals in order, without builtins that were never rebound.
func (in *Interp) GlobalNames() []string {
	names := make([]string, 0, len(in.globals))
	for n := range in.globals {
		if !in.pristine[n] {
			names = append(names, n)
		}
	}
	sort.Strings(names)
	return names
}

// fail raises a runtime error in the current coroutine.
func (in *Interp) fail(class string, operands ...Value) {
	e := &RunError{Class: class, Operands: make([]string, len(operands)), Op: in.op}
	in.op = ""
	for i, o := range operands {
		e.Operands[i] = Abbrev(o)
		e.FullOps = append(e.FullOps, String(o))
	}
	for co := in.cur; co != nil; co = co.parent {
		st := make([]Frame, 0, len(co.calls))
		for i := len(co.calls) - 1; i >= 0; i-- {
			c := co.calls[i]
			f := Frame{Name: c.name, Args: make([]string, len(c.fn.params)), Full: make([]string, len(c.fn.params))}
			for j, p := range c.fn.params {
				v, _ := c.act.get(p)
				f.Args[j] = Abbrev(v)
				f.Full[j] = String(v)
			}
			st = append(st, f)
		}
		e.Stacks = append(e.Stacks, st)
	}
	panic(e)
}

// lookup reads a variable: own, then the creator of the function, then global, then nil.
func (in *Interp) lookup(name string, a *activation) Value {
	if a != nil {
		if v, ok := a.get(name); ok {
			return v
		}
		if a.parent != nil {
			if v, ok := a.parent.get(name); ok {
				return v
			}
		}
	}
	return in.globals[name]
}

// bind writes a variable: own variable in a function, global at top level.
func (in *Interp) bind(name string, v Value, a *activation) {
	if a != nil {
		a.set(name, v)
		return
	}
	in.globals[name] = v
	delete(in.pristine, name)
}

func (in *Interp) cond(n node.Type, a *activation) bool {
	c, _ := in.eval(n, a)
	if c.K != KBool {
		in.op = "cond"
		in.fail(ErrType, c)
	}
	return c.Bool()
}

// eval evaluates a node in activation a (nil at top level). The second result
// tells that a return statement was executed and is still unwinding. (The
// cases live in methods of their own to keep the frames of the recursion small.)
func (in *Interp) eval(n node.Type, a *activation) (Value, bool) {
	in.Steps++
	if in.Steps > in.limit {
		in.fail(ErrBudget)
	}
	switch n := n.(type) {
	case node.Int:
		return Int(int(n)), false
	case node.Float:
		return Float(float64(n)), false
	case node.Bool:
		return Bool(bool(n)), false
	case node.String:
		return Str(string(n)), false
	case node.Name:
		return in.lookup(string(n), a), false
	case node.List:
		return in.arrayLit(n, a), false
	case node.BinOp:
		return in.binOp(n, a), false
	case node.UnOp:
		return in.unOp(n, a), false
	case node.IndexAt:
		return in.indexAt(n, a), false
	case node.IndexFromTo:
		return in.indexFromTo(n, a), false
	case node.Assign:
		return in.assign(n, a), false
	case node.Function:
		return in.function(n, a), false
	case node.Call:
		return in.call(n, a), false
	case node.Yield:
		return in.yield(n, a), false
	case node.Block:
		return in.block(n, a)
	case node.If:
		if in.cond(n.Condition, a) {
			return in.eval(n.TrueCase, a)
		}
		return Nil, false
	case node.IfElse:
		if in.cond(n.Condition, a) {
			return in.eval(n.TrueCase, a)
		}
		return in.eval(n.FalseCase, a)
	case node.While:
		return in.while(n, a)
	case node.For:
		return in.loop(n, a)
	case node.Return:
		v, _ := in.eval(n.Target, a)
		return v, true
	}
	panic("model: unexpected node in the parse tree")
}

func (in *Interp) arrayLit(n node.List, a *activation) Value {
	elems := make([]Value, len(n.Elems))
	for i, e := range n.Elems {
		elems[i], _ = in.eval(e, a)
	}
	return Array(elems)
}

func (in *Interp) binOp(n node.BinOp, a *activation) Value {
	l, _ := in.eval(n.Left, a)
	r, _ := in.eval(n.Right, a) // no short circuit
	v, cls := binary(n.Op, l, r)
	if cls != "" {
		in.op = n.Op
		in.fail(cls, l, r)
	}
	return v
}

func (in *Interp) unOp(n node.UnOp, a *activation) Value {
	t, _ := in.eval(n.Target, a)
	v, cls := unary(n.Op, t)
	if cls != "" {
		if n.Op == "-" { // -x is -1 * x: the failing operation is the multiplication
			in.op = "*"
			in.fail(cls, Int(-1), t)
		}
		in.op = "u" + n.Op
		in.fail(cls, t)
	}
	return v
}

func (in *Interp) indexAt(n node.IndexAt, a *activation) Value {
	x, _ := in.eval(n.Ary, a)
	i, _ := in.eval(n.At, a)
	v, cls := index(x, i)
	if cls != "" {
		in.op = "index"
		in.fail(cls, x, i)
	}
	return v
}

func (in *Interp) indexFromTo(n node.IndexFromTo, a *activation) Value {
	x, _ := in.eval(n.Ary, a)
	i, _ := in.eval(n.From, a)
	j, _ := in.eval(n.To, a)
	v, cls := index(x, i, j)
	if cls != "" {
		in.op = "slice"
		in.fail(cls, x, i, j)
	}
	return v
}

func (in *Interp) assign(n node.Assign, a *activation) Value {
	v, _ := in.eval(n.Value, a)
	if v.K == KNil {
		in.op = "assign"
		in.fail(ErrNil, v)
	}
	in.bind(string(n.VarRef.(node.Name)), v, a)
	return v
}

func (in *Interp) block(n node.Block, a *activation) (v Value, ret bool) {
	for _, s := range n.Body {
		if v, ret = in.eval(s, a); ret {
			break
		}
	}
	return v, ret
}

func (in *Interp) while(n node.While, a *activation) (v Value, ret bool) {
	for !ret && in.cond(n.Condition, a) {
		v, ret = in.eval(n.Body, a)
	}
	return v, ret
}

// function evaluates a function literal: the value captures the current activation.
func (in *Interp) function(n node.Function, a *activation) Value {
	f := &Func{params: make([]string, len(n.Parameters.Elems)), body: n.Body, env: a}
	for i, p := range n.Parameters.Elems {
		f.params[i] = string(p.(node.Name))
	}
	return function(f)
}

func (in *Interp) yield(n node.Yield, a *activation) Value {
	v, _ := in.eval(n.Target, a)
	if co := in.cur; co != in.main { // owned by a for loop: hand the value over
		in.Yields++
		if !co.yield(v) {
			panic(abandoned{})
		}
	}
	return v
}

// call evaluates a function call.
func (in *Interp) call(n node.Call, a *activation) Value {
	args := make([]Value, len(n.Arguments.Elems))
	for i, e := range n.Arguments.Elems {
		args[i], _ = in.eval(e, a)
	}
	name := string(n.Name.(node.Name))
	callee := in.lookup(name, a) // after the arguments
	if callee.K != KFunc {
		in.op = "call"
		in.fail(ErrType, callee)
	}
	f := callee.ref.fn
	if len(args) != len(f.params) {
		in.op = "call"
		in.fail(ErrArity, callee)
	}
	co := in.cur
	if co.depth >= in.MaxDepth {
		in.fail(ErrBudget)
	}
	// parameters are the first own variables of the new activation
	act := &activation{names: f.params[:len(args):len(args)], vals: args, parent: f.env}
	co.depth++
	co.calls = append(co.calls, call{name: name, fn: f, act: act})
	var v Value
	if f.native != nil {
		v = f.native(in, act)
	} else {
		v, _ = in.eval(f.body, act) // a return ends here
	}
	co.calls = co.calls[:len(co.calls)-1]
	co.depth--
	return v
}

// spawn creates the coroutine of one iterator expression of a for loop
// executing in activation a of the current coroutine.
func (in *Interp) spawn(expr node.Type, a *activation) *coro {
	me := in.cur
	co := &coro{parent: me, depth: me.depth}
	act := a
	if a != nil { // inside a function: the coroutine works on a copy of the variables
		act = a.clone()
		top := me.calls[len(me.calls)-1]
		co.calls = append(co.calls, call{name: top.name, fn: top.fn, act: act})
	}
	if in.live >= in.MaxLive {
		in.fail(ErrBudget)
	}
	in.Coroutines++
	in.live++
	co.next, co.stop = iter.Pull(func(yield func(Value) bool) {
		co.yield = yield
		defer func() {
			co.done = true
			in.live--
			switch r := recover().(type) {
			case nil, abandoned:
			case *RunError:
				co.err = r
			default:
				panic(r)
			}
		}()
		in.eval(expr, act) // the value of the iterator expression is ignored
	})
	return co
}

// resume runs co until its next yield; ok is false when it finished instead.
func (in *Interp) resume(co *coro) (Value, bool) {
	me := in.cur
	in.cur = co
	v, ok := co.next()
	in.cur = me
	if co.err != nil {
		panic(co.err) // the error continues in the coroutine of the loop
	}
	return v, ok
}

// loop evaluates a for loop.
func (in *Interp) loop(n node.For, a *activation) (Value, bool) {
	members := make([]*coro, 0, len(n.Iterators.Elems))
	defer func() { // whatever ends the loop, the remaining coroutines are never resumed
		me := in.cur
		for _, co := range members {
			if !co.done {
				co.done = true
				in.Abandoned++
			}
			co.stop()
		}
		in.cur = me
	}()
	result := Nil
	for round := 0; ; round++ {
		for k, it := range n.Iterators.Elems {
			if round == 0 {
				members = append(members, in.spawn(it, a))
			} else {
				in.Resumes++
			}
			v, ok := in.resume(members[k])
			if !ok {
				return result, false
			}
			if v.K == KNil { // binding a loop variable is an assignment
				in.op = "assign"
				in.fail(ErrNil, v)
			}
			in.bind(string(n.VarRefs.Elems[k].(node.Name)), v, a)
		}
		v, ret := in.eval(n.Body, a)
		if ret {
			return v, true
		}
		result = v
	}
}
