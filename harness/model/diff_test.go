package model

import (
	"fmt"
	"os"
	"os/exec"
	"path/filepath"
	"regexp"
	"strings"
	"testing"
)

// transcript runs a program statement by statement the way the real
// interpreter runs a file: output of write, and an error report per failing
// statement, in the (normalised) format of the real interpreter.
func transcript(src, stdin string, repl bool) string {
	in := New()
	in.Stdin = []byte(stdin)
	in.Budget = 50_000_000
	var sb strings.Builder
	if repl {
		sb.WriteString("calc repl\n")
	}
	for _, stmt := range SplitStatements(src) {
		vals, rerr, perr := in.EvalSrc(stmt)
		sb.WriteString(in.TakeOutput())
		if perr != nil {
			fmt.Fprintf(&sb, "PARSE ERROR %v\n", perr)
		}
		if repl {
			for _, v := range vals {
				fmt.Fprintf(&sb, "> %s\n", Display(v))
			}
		}
		if rerr != nil {
			fmt.Fprintf(&sb, "RUNTIME ERROR : %s\n--> %s\n", rerr.Class, strings.Join(rerr.Operands, ", "))
			for _, st := range rerr.Stacks {
				sb.WriteString("context\n")
				for _, f := range st {
					args := make([]string, len(f.Args))
					for i, a := range f.Args {
						args[i] = fmt.Sprintf("arg[%d]: %s", i, a)
					}
					fmt.Fprintf(&sb, "%s() args: %s\n", f.Name, strings.Join(args, " "))
				}
			}
		}
	}
	return sb.String()
}

var (
	reCtxLine = regexp.MustCompile(`(?m)^ +\d+: 0X[0-9A-F]{16} : .*\n`)
	reErrLine = regexp.MustCompile(`(?m)^--> +\d+: 0X[0-9A-F]{16} : [^;\n]*?(?: ; (.*))?$`)
	reContext = regexp.MustCompile(`(?m)^memory context 0x[0-9a-f]+$`)
	reIP      = regexp.MustCompile(`(?m)^IP: \d+ `)
	reRule    = regexp.MustCompile(`(?m)^(= stack =+|=+)\n`)
)

func normalise(real string) string {
	real = reCtxLine.ReplaceAllString(real, "")
	real = reErrLine.ReplaceAllString(real, "--> $1")
	real = reContext.ReplaceAllString(real, "context")
	real = reIP.ReplaceAllString(real, "")
	return reRule.ReplaceAllString(real, "")
}

// TestDifferential compares the model with the real interpreter on the
// programs in testdata: *.calc run in file mode (with *.stdin as input), *.repl
// are piped to the REPL. It needs CALC_REF=/path/to/calc binary. Differences
// in files named known_* are only logged: they document where the real interpreter
// departs from the rules of the model.
func TestDifferential(t *testing.T) {
	ref := os.Getenv("CALC_REF")
	if ref == "" {
		t.Skip("CALC_REF not set")
	}
	calc, _ := filepath.Glob("testdata/*.calc")
	repl, _ := filepath.Glob("testdata/*.repl")
	for _, file := range append(calc, repl...) {
		src, err := os.ReadFile(file)
		if err != nil {
			t.Fatal(err)
		}
		isRepl := strings.HasSuffix(file, ".repl")
		stdin, _ := os.ReadFile(strings.TrimSuffix(file, ".calc") + ".stdin")
		cmd := exec.Command(ref, file)
		cmd.Stdin = strings.NewReader(string(stdin))
		if isRepl {
			cmd = exec.Command(ref)
			cmd.Stdin = strings.NewReader(string(src))
		}
		out, _ := cmd.CombinedOutput()
		want, got := normalise(string(out)), transcript(string(src), string(stdin), isRepl)
		switch {
		case got == want:
		case strings.HasPrefix(filepath.Base(file), "known_"):
			t.Logf("%s (known difference from the real interpreter):\n--- model\n%s\n--- real\n%s", file, got, want)
		default:
			t.Errorf("%s:\n--- model\n%s\n--- real\n%s", file, got, want)
		}
	}
}
