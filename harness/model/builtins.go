package model

import (
	"bytes"
	"strconv"
	"sync"

	"github.com/paulsonkoly/calc/parser"
	"github.com/paulsonkoly/calc/types/node"
)

// The generator builtins are ordinary calc functions; this is their definition
// from the language description.
const generatorSrc = `fromto = (a, b) -> while a < b {
  yield a
  a = a + 1
}
elems = (a) -> {
  i = 0
  while i < #a {
    yield a[i]
    i = i + 1
  }
}
indices = (a) -> {
  i = 0
  while i < #a {
    yield i
    i = i + 1
  }
}
`

var generatorNodes = sync.OnceValue(func() []node.Type {
	var nodes []node.Type
	for _, stmt := range SplitStatements(generatorSrc) {
		ns, err := parser.Parse(stmt)
		if err != nil {
			panic("model: builtin generators do not parse: " + err.Error())
		}
		nodes = append(nodes, ns...)
	}
	return nodes
})

func (in *Interp) native(name string, params []string, f func(in *Interp, a *activation) Value) {
	in.globals[name] = function(&Func{params: params, native: f})
}

func (in *Interp) loadBuiltins() {
	in.native("read", nil, func(in *Interp, _ *activation) Value {
		i := bytes.IndexByte(in.Stdin, '\n')
		if i < 0 {
			in.Stdin = nil
			in.op = "read"
			in.fail(ErrRead)
		}
		line := string(in.Stdin[:i+1])
		in.Stdin = in.Stdin[i+1:]
		return Str(line)
	})
	in.native("write", []string{"v"}, func(in *Interp, a *activation) Value {
		v, _ := a.get("v")
		in.Out.WriteString(String(v))
		return Nil
	})
	in.native("toa", []string{"v"}, func(in *Interp, a *activation) Value {
		v, _ := a.get("v")
		return Str(String(v))
	})
	in.native("aton", []string{"v"}, func(in *Interp, a *activation) Value {
		v, _ := a.get("v")
		if v.K != KString {
			in.op = "aton"
			in.fail(ErrType, v)
		}
		if i, err := strconv.Atoi(v.s); err == nil {
			return Int(i)
		}
		if f, err := strconv.ParseFloat(v.s, 64); err == nil {
			return Float(f)
		}
		in.op = "aton"
		in.fail(ErrConversion, v)
		return Nil
	})
	for _, n := range generatorNodes() {
		if _, err := in.Eval(n); err != nil {
			panic("model: builtin generators fail: " + err.Error())
		}
	}
	for name := range in.globals {
		in.pristine[name] = true
	}
	in.Steps = 0
}
