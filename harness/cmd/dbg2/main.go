package main

import (
	"fmt"
	"os"
	"strconv"
	"time"

	"verif/core"
	"verif/props"
	"verif/sess"
)

func main() {
	sess.InitCapture()
	p, _ := core.Lookup("C15")
	from, _ := strconv.Atoi(os.Args[1])
	to, _ := strconv.Atoi(os.Args[2])
	_ = props.CalcBinary
	for i := from; i < to; i++ {
		t := time.Now()
		r := p.(core.Enumerated).RunCase(i)
		v := ""
		if r.Violation != nil {
			v = r.Violation.Clause + " " + r.Violation.Detail
		}
		fmt.Fprintf(sess.RealStdout(), "%d %v %v %s %v %s\n", i, time.Since(t), r.Stats, r.Discard, r.Sample.(*props.Hist).Notes, v)
	}
}
