// Command simcalc is the deterministic simulator for paulsonkoly/calc:
// coordinator, worker and replayer in one binary.
package main

import (
	"fmt"
	"os"

	"verif/c13"
	"verif/core"
	_ "verif/props"
	"verif/sess"
)

func init() { core.Register(c13.Prop{}) }

func main() {
	core.Main(func() {
		core.Stdout = os.Stdout
		if err := sess.InitCapture(); err != nil {
			fmt.Fprintln(os.Stderr, "capture:", err)
			os.Exit(core.ExitTrouble)
		}
		core.Stdout = sess.RealStdout()
	})
}
