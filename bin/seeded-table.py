#!/usr/bin/env python3
"""Regenerates the table of seeded changes in DESIGN.md section 16 from /verif/seeded/*/meta.json."""
import json, glob, re, os
rows = []
for m in sorted([x for x in glob.glob('/verif/seeded/*/meta.json') if 'not-evaluable' not in x], key=lambda p: (p.split('/')[-2].split('-')[0], int(p.split('/')[-2].split('-')[1]))):
    name = m.split('/')[-2]
    d = json.load(open(m))
    det = d.get('detected_by', [])
    caught = [x.split(':')[0] for x in det if int(x.split(':')[1]) > 0]
    missed = [x.split(':')[0] for x in det if int(x.split(':')[1]) == 0]
    summ = d['summary'].replace('\n', ' ').replace('|', '/')
    summ = summ[:230] + ('...' if len(summ) > 230 else '')
    note = d.get('verif_note', '')
    rows.append(f"| {name} | {summ} | {', '.join(caught) or '**none**'} | {', '.join(missed) or '-'} | {note} |")
table = "| change | what it does | caught by (quick tier) | also run, silent | note |\n|---|---|---|---|---|\n" + "\n".join(rows)
p = '/verif/DESIGN.md'
s = open(p).read()
b, e = '<!-- seeded-table:begin -->', '<!-- seeded-table:end -->'
if '@@SEEDED_TABLE@@' in s:
    s = s.replace('@@SEEDED_TABLE@@', b + '\n' + table + '\n' + e)
else:
    s = re.sub(re.escape(b) + r'.*?' + re.escape(e), lambda _: b + '\n' + table + '\n' + e, s, flags=re.S)
open(p, 'w').write(s)
print(len(rows), 'rows')
