#!/usr/bin/env python3
"""Regenerates MANIFEST.json from the table below (keeps it valid at all times)."""
import json, subprocess

HOOK_COMMITS = subprocess.run(["git","-C","/repo","log","--format=%H %s"],capture_output=True,text=True).stdout.splitlines()
hook_commits = [l.split()[0] for l in HOOK_COMMITS if " verif:" in l]

NA = {
 "C01": "meaning of a program is a pure function of its text: deciding it is differential testing over programs; no schedule, fault, clock or environment in the quantifier (DESIGN.md 7)",
 "C04": "name resolution is fixed at compile time from the program text; its history-dependent clauses (caller frame undisturbed, escaped closure keeps its values) are memory-level facts reached through C18 and C03 (DESIGN.md 7)",
 "C05": "'every operand type in every position gives an error, not a crash' is fuzzing over programs and operands, not a search over schedules or faults (DESIGN.md 7)",
 "C06": "termination and error spans of lexing/parsing are a pure function of one input string (DESIGN.md 7)",
 "C07": "print/parse round trip is a pure function of one tree and one layout (DESIGN.md 7)",
 "C11": "operator laws are a pure function of an operand tuple (DESIGN.md 7)",
 "C12": "which code-generation strategy is chosen is a function of the syntactic context; comparing placements of one expression is differential testing over texts (DESIGN.md 7)",
 "C14": "token spans and kinds are a pure function of one input string (DESIGN.md 7)",
}

CLAIMED = {}
exec(open("/verif/bin/claimed.py").read())

checks = []
for pid, c in sorted(CLAIMED.items()):
    checks.append({
        "property_id": pid,
        "quick_cmd": f"bin/check {pid} quick",
        "thorough_cmd": f"bin/check {pid} thorough",
        "evidence_file": f"/verif/evidence/{pid}.json",
        "replay_cmd_template": "bin/check --replay {path}",
        "engine": "simcalc",
        "level_claimed": {"category": c["level"], "text": c["text"], "design_ref": c["ref"]},
        "level_note": c["note"],
        "technique": c["technique"],
    })

pending = [f"C{n:02d}" for n in range(1,20) if f"C{n:02d}" not in CLAIMED and f"C{n:02d}" not in NA]
na = [{"property_id": k, "reason": v} for k, v in sorted(NA.items())]
for p in pending:
    na.append({"property_id": p, "reason": "simulation designed in DESIGN.md section 6 but its check is not registered yet (under construction); not claimed until it runs clean on the unchanged tree"})

m = {
 "version": 1,
 "setup_cmd": "bin/setup",
 "hooks": {
   "guard": "verif (Go build tag)",
   "enable": "go build -tags verif (bin/check builds /verif/harness with `replace github.com/paulsonkoly/calc => /repo`)",
   "baseline_off_cmd": "cd /repo && GOFLAGS=-mod=mod go test -vet=off -count=1 -timeout 25m ./...",
   "source_commits": hook_commits,
   "add_only": True,
 },
 "engines": [{
   "name": "simcalc", "path": "/verif/harness",
   "serves_properties": sorted(CLAIMED.keys()),
   "kind_free_text": "deterministic simulation with fault injection: one choice tape (splitmix64 from VERIF_SEED, property id, run index) decides every generated history, fault and delivery schedule; real calc session/VM/memory/lexer/combinator code runs under a per-instruction hook; oracles are twin sessions, a definitional reference model and per-step invariants; failures are shrunk by tape and written as replay files",
 }],
 "checks": checks,
 "not_applicable": na,
 "notes": "See DESIGN.md. Exit codes: 0 held, 1 violation (VIOLATION line), 2 build/watchdog/selftest trouble. Known findings: /verif/known_findings.jsonl.",
}
json.dump(m, open("/verif/MANIFEST.json","w"), indent=1)
print("claimed", sorted(CLAIMED), "pending", pending)
