#!/usr/bin/env python3
# bin/thorough-row.py <vp-run-log> <commit>: rewrite the rows of the DESIGN 17.1 table for the
# properties whose "rc=" summary lines are in the given bin/thorough-all log.
import re, sys

log, commit = sys.argv[1], sys.argv[2]
path = '/verif/DESIGN.md'
s = open(path).read()
for line in open(log):
    m = re.match(r'(C\d\d) rc=(\d+) (\d+)s ', line)
    if not m:
        continue
    pid, rc, wall = m.group(1), m.group(2), m.group(3)
    f = dict(re.findall(r'(\w+)=(\d+)', line))
    n = lambda k: '{:,}'.format(int(f[k]))
    row = '| %s | %s | %s s | %s | %s | %s | %s | %s | %s | %s |' % (
        pid, rc, wall, n('evaluations'), n('distinct_nontrivial'), n('interleavings'),
        n('discarded'), n('statements'), n('instructions'), commit)
    s, k = re.subn(r'^\| %s \| \d+ \| \d+ s \|.*$' % pid, row, s, flags=re.M)
    print(pid, 'rows replaced:', k)
open(path, 'w').write(s)
