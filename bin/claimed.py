SIM = "deterministic simulation with fault injection: "
CLAIMED = {
 "C02": {
  "level": "exploration",
  "technique": SIM + "seeded generator/loop schedules (cancellation, exhaustion, recycling, padding), event log in execution order compared with a coroutine reference model",
  "text": "Seeded search over sessions whose generators and loop bodies log their own execution order; nesting, zip, cancellation by return, failures inside generators, composition to depth 3, recycled contexts, loop-holding functions under 0..300 padded frames, generators reading globals the loop body changes between resumptions, factory-made generators consumed one after another in one statement, functions with 9..17 live iterator contexts, call-free iterator expressions, yields with no loop waiting for them. The real event log, loop value and error class must equal those of the definitional reference model for every statement. Sampling, not proof; bounds in DESIGN.md 6.C02.",
  "ref": "6.C02",
  "note": "Trusted base: the real parser (shared by both sides), the reference model written from Readme.md, the harness. Programs avoid the corners the Readme leaves undefined (DESIGN.md 5.3).",
 },
 "C03": {
  "level": "exploration",
  "technique": SIM + "metamorphic placement of one pure call across session histories, call depths, frame-width padding, loop/generator contexts and after failures; real-vs-real equality",
  "text": "The same side-effect-free call is evaluated in up to 10 placements of one session (top level, twice per statement, under d padded frames, in loop bodies, as a yielded value, after deep recursion, wide calls, loops, failed statements and injected aborts); probe functions include ones whose locals are assigned only on paths not taken (they must read as nil wherever the frame lands), makers of closures (plain, yielded by a generator, looping over a captured variable) with loops and calls placed between creating a closure and calling it, and an offset sweep that calls the probe at every stack offset 4..299 in a fresh session; all renderings must be equal. Needs no model. Sampling, not proof.",
  "ref": "6.C03",
  "note": "Generated functions never reassign a captured variable after capture (known finding K3) and never return closures inside arrays (known finding K4); those two shapes are recorded in known_findings.jsonl and replayed on every run.",
 },
 "C08": {
  "level": "exploration",
  "technique": SIM + "crash/recovery: fault sequences (parse errors, runtime errors of every class at depth / in loops / in generators, injected aborts) with a failure-free twin session as oracle",
  "text": "Twin sessions over one generated history: A sees failing statements (unparsable text, runtime errors at top level, at call depth d, in loop iteration k, inside generators and generators of generators, aborts injected at the k-th fallible instruction), B sees only their completed global prefix. Every later statement must agree in value, output and error class, and the machine must be at rest after every failure. Completed prefixes also bind functions, generators and arrays that later probe statements use after new code has been compiled. One run in three replays the history through the real node.Loop + FReader + processInput on a real file, with the failing statements and with their completed prefixes; every non-failing step must print the same in both streams and no step may be lost. Failing statements also write before they fail (nothing may follow the report) and may be a well-formed statement followed by a syntax error on the same line (none of it may take effect); one stream in twelve also goes through the cmd/calc REPL; a parse canary checks that the parser's outcome on fixed statements never depends on what the process parsed before. Runs that kill or stall their process are re-executed alone in a child process and reported (fatal-crash / hang). Sampling, not proof.",
  "ref": "6.C08",
  "note": "Error reports are cut from compared output (they quote instruction indices that legitimately differ; C19 checks them). Injected aborts only at opcodes that can fail from operand data.",
 },
 "C09": {
  "level": "exploration",
  "technique": SIM + "seeded session histories with injected aborts, conservation invariant after every statement, n-vs-2n twin sessions for the growth clause",
  "text": "Seeded search over session histories (every statement form in discarded/used/returning position, loops, generators, cancellations by return, data-driven errors and injected aborts at the k-th fallible instruction): after every statement sp, frame depth, closure depth, live contexts and main ip must be at rest; twin sessions running the same stateless loop body n and 2n times must reach the same maximum sp and stack length, with the loop as function tail, conditional-branch tail, discarded, top-level statement, inside a generator, nested, and the body ending in each statement form (arithmetic, call, array literal, if with and without else, string, index, slice, closure, yield). Sampling, not proof.",
  "ref": "6.C09",
  "note": "Trusts the verif-tagged accessors and the step hook; the driver re-enacts processInput (checked against node.Loop by C16); programs stay inside the fragment of DESIGN.md 5.3.",
 },
 "C13": {
  "level": "exploration",
  "technique": SIM + "operation histories on the real TLexer against a fresh-scan model; real combinators over a simulated call-recording lexer with injected lexer errors and premature end of input, against an ordered-choice reference recogniser",
  "text": "Part A: random legal interleavings of Next/Snapshot/Rollback/Commit on the real transactional lexer (inputs include rejected characters so cached error entries are replayed) compared after every operation with a fresh scan. Part B: random parsers built from all 13 combinators run over a simulated RollbackLexer that records every call and injects lexer errors / early end of tokens; outcome and final position must equal the reference recogniser's, snapshots must be closed exactly once in LIFO order; B2 runs the same parser over the real TLexer and the simulated lexer and requires identical call traces. Sampling, not proof. Part A also runs long histories (600..1400 lexemes, bursts of 256 Next calls) so that the replay cache holds thousands of entries. Part C: every 4096th run the real grammar parses fixed statements full of failing alternatives; the outcome must equal the outcome at process start.",
  "ref": "6.C13",
  "note": "The fresh non-transactional scan is trusted (C14's business). Choose ends with an Ok() gate and repetition gates consume, as the package documents. The grammar in parser.go is not re-run on the simulated lexer.",
 },
 "C17": {
  "level": "exploration",
  "technique": SIM + "stdin delivery schedules (chunking, EOF position, transient errors) behind a stream seam, plus the built binary on file and pipe stdin; built-in contracts against the reference model",
  "text": "read(): the simulator owns the byte source and delivers L1..Ln under seeded chunk schedules (cuts inside lines, many lines per chunk, 1-byte chunks, lines and chunks >= 4096 bytes, unterminated tail, transient error at a line boundary) while reads are issued from top level, nested calls, loop bodies, generators and zips; the i-th read must return Li, exhaustion must be a runtime error. 1 run in 40 repeats through cmd/calc with file and pipe stdin. The pure clauses (toa/write, aton round trip routed through stdin, fromto/elems/indices, wrong argument types/counts) are asserted against the model: that part is ordinary assertion, not schedule search. Programs also rebind built-in names (the other built-ins must not care), statements fail with unrelated runtime errors between reads (unread lines must survive), and the binary variant ends one run in four with write-then-exit(code).",
  "ref": "6.C17",
  "note": "Both newline conventions of read() are accepted (the Readme is silent). I/O errors are injected at line boundaries only.",
 },
 "C18": {
  "level": "exploration",
  "technique": SIM + "interleaved memory-operation histories over parent, forked and recycled memories against a model, allocation boundaries crossed by drawn widths/depths; wide-frame/deep-recursion programs with closed-form results",
  "text": "Part A drives the real memory package through the VM's call/return/fork/recycle protocol with widths, depths and scratch heights drawn around every allocation boundary, comparing every value read with a trivial model. Part B runs calc functions with up to 300 locals whose middle section grows the stack, forks into recycled contexts, nests wide calls and resumes generators, then returns all locals (closed form), and recursion to 20000/100000 frames. Sampling, not proof. Part C (1 run in 16): escaping closures (yielded by a generator and returned or kept, returned by makers, closures of closures, created in loop bodies, looping over captured bounds, locals reaching an iterator only through function literals, multi-variable loops whose variables partly exist) with other loops, recursion and wide calls reusing stack and contexts in between; closed-form results.",
  "ref": "6.C18",
  "note": "Part A replaces the VM by the harness issuing the memory calls the VM would issue; legality restrictions are listed in the evidence assumptions (e.g. children destroyed before the forking frame returns, as RCONT/DCONT do).",
 },
}

CLAIMED.update({
 "C10": {
  "level": "exploration",
  "technique": SIM + "operation histories over values that share backing arrays (allocator state built by the preceding history), immutability invariant over all globals and data-segment constants after every step",
  "text": "Seeded histories of 5..40 array/string operations (slices of slices, concatenation onto slices with spare capacity, array literals with computed elements evaluated repeatedly, literal-bodied functions, arrays captured by closures and iterated by generators while the body concatenates, index errors in between); after every statement every untouched global and every data-segment constant must render exactly as before. Weakest fit of the claimed set (DESIGN.md 6.C10): the dimension explored is aliasing state accumulated by the history. Sampling, not proof. Renderings are kept as strings too (toa of live arrays, slices and joins of them, writes in between) and must not change later.",
  "ref": "6.C10",
  "note": "Globals are read through the exported memory API and rendered with value.String (the rendering toa uses). Mutation reachable only through unnamed values is out of reach.",
 },
 "C15": {
  "level": "fault_enumeration",
  "technique": SIM + "capacity exhaustion as the injected fault: data segment filled to each side of the 2^15 and 2^16 boundaries before ordinary statements (table enumerated completely), large-body programs, static operand-decode check plus unfilled twin session",
  "text": "Only the size-limit clause is claimed. The data segment is filled to B+delta (B in {2^15,2^16}, delta -14..+3) before each of 14 statement kinds in both flavours (1008 cases, enumerated completely in both tiers) plus functions with 2^15+-2 locals, large bodies, and a jump-distance table (14 templates whose statement is made exactly limit+d instructions long, limit in {2^15-1, 2^16-1}, d in -3..+9, closed-form expected values; enumerated completely in thorough, 9 pairs per template in quick), 14 refusal cases through the real node.Loop (nothing of a refused statement may execute; what follows must behave as in a fresh session) and 4 late-definition cases beyond instruction 2^16; seeded runs place the fill inside generated sessions. A statement must be refused at compile time or decode to in-range operands and behave exactly like the unfilled twin.",
  "ref": "6.C15",
  "note": "A compile-time panic counts as refusal. The fill appends nil entries to the DS slice the caller owns (what a long session does). The encode/decode round trip over all opcode x kind x address is a pure function and is not claimed.",
 },
 "C16": {
  "level": "exploration",
  "technique": SIM + "stream framing faults (line layout, comments/strings holding brackets and quotes, blank lines, long lines, missing final newline) against the built binary in file, REPL and -eval mode and the real Loop/FReader in process; statement-by-statement twin session as oracle",
  "text": "A list of statements with known texts is laid out into a stream by the tape and executed by the real node.Loop+FReader in process and by the built cmd/calc in file mode, REPL mode (stdin from a regular file) and -eval; outputs must equal what the statements print when given one at a time to a twin session. A mode that does not terminate within a generous watchdog (confirmed by a second, longer run) is a violation. Streams also hold multi-line strings with blank and comment-looking interior lines, string-valued statements (the REPL echo must be the value's characters between quotes), statements that end in a runtime error (reports compared as markers; the session goes on in every mode), several statements on one physical line, re-reads of globals bound and echoed earlier, calls of functions bound inside earlier compound statements, and programs that end themselves with exit(code): status and output must agree in all three modes.",
  "ref": "6.C16",
  "note": "Failing statements bind nothing here (C08 covers recovery). Comments are kept off the last line of REPL statements / -eval text / newline-less streams (lexer spin, C06, unclaimed). Strings hold valid UTF-8 only (readline decodes runes). Interactive terminal editing is out of reach.",
 },
 "C19": {
  "level": "fault_enumeration",
  "technique": SIM + "fault sites enumerated (error class x site x run-time choice by simulated stdin x flavour) plus seeded generated sessions; captured report parsed and compared with the reference model's failing operation, operands and per-coroutine call stacks",
  "text": "Every error class at every site kind (top level, call depth 1..6, parameters holding functions, closures, reassigned parameters, loop bodies, generators, generators of generators, zip members, built-ins, and the same sites after other loops of the same statement have come and gone: recycled contexts, abandoned loops, deep recursion, wide frames), with the failing dynamic point fixed in the text or chosen at run time by stdin, in both flavours: the table is run completely in both tiers; seeded runs add generated sessions. The report's class, marked instruction (must be the last instruction dispatched), opcode family, operand values and the frames of the failing context and all its ancestors must match the model. The listing around the marked instruction is checked too: consecutive indices containing the failing instruction, the printed words equal the code segment, every line reads as the opcode, operand kinds and addresses the VM's own decoders return. Printed values are matched against full renderings (any truncation length); parameters hold percent signs and multi-byte characters; sites include top-level generators in recycled contexts failing before their first yield and failures beneath calls in loop conditions.",
  "ref": "6.C19",
  "note": "Temp-register opcodes print only the operands they fetch (printed operands must be a suffix of the model's). Crash shapes that never reach a report (DESIGN.md 5.3) are out of reach.",
 },
})
