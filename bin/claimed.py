SIM = "deterministic simulation with fault injection: "
CLAIMED = {
 "C02": {
  "level": "exploration",
  "technique": SIM + "seeded generator/loop schedules (cancellation, exhaustion, recycling, padding), event log in execution order compared with a coroutine reference model",
  "text": "Seeded search over sessions whose generators and loop bodies log their own execution order; nesting, zip, cancellation by return, failures inside generators, composition to depth 3, recycled contexts, loop-holding functions under 0..300 padded frames. The real event log, loop value and error class must equal those of the definitional reference model for every statement. Sampling, not proof; bounds in DESIGN.md 6.C02.",
  "ref": "6.C02",
  "note": "Trusted base: the real parser (shared by both sides), the reference model written from Readme.md, the harness. Programs avoid the corners the Readme leaves undefined (DESIGN.md 5.3).",
 },
 "C03": {
  "level": "exploration",
  "technique": SIM + "metamorphic placement of one pure call across session histories, call depths, frame-width padding, loop/generator contexts and after failures; real-vs-real equality",
  "text": "The same side-effect-free call is evaluated in up to 10 placements of one session (top level, twice per statement, under d padded frames, in loop bodies, as a yielded value, after deep recursion, wide calls, loops, failed statements and injected aborts); all renderings must be equal. Needs no model. Sampling, not proof.",
  "ref": "6.C03",
  "note": "Generated functions never reassign a captured variable after capture (known finding K3) and never return closures inside arrays (known finding K4); those two shapes are recorded in known_findings.jsonl and replayed on every run.",
 },
 "C08": {
  "level": "exploration",
  "technique": SIM + "crash/recovery: fault sequences (parse errors, runtime errors of every class at depth / in loops / in generators, injected aborts) with a failure-free twin session as oracle",
  "text": "Twin sessions over one generated history: A sees failing statements (unparsable text, runtime errors at top level, at call depth d, in loop iteration k, inside generators and generators of generators, aborts injected at the k-th fallible instruction), B sees only their completed global prefix. Every later statement must agree in value, output and error class, and the machine must be at rest after every failure. Sampling, not proof.",
  "ref": "6.C08",
  "note": "Error reports are cut from compared output (they quote instruction indices that legitimately differ; C19 checks them). Injected aborts only at opcodes that can fail from operand data.",
 },
 "C09": {
  "level": "exploration",
  "technique": SIM + "seeded session histories with injected aborts, conservation invariant after every statement, n-vs-2n twin sessions for the growth clause",
  "text": "Seeded search over session histories (every statement form in discarded/used/returning position, loops, generators, cancellations by return, data-driven errors and injected aborts at the k-th fallible instruction): after every statement sp, frame depth, closure depth, live contexts and main ip must be at rest; twin sessions running the same stateless loop body n and 2n times must reach the same maximum sp and stack length. Sampling, not proof.",
  "ref": "6.C09",
  "note": "Trusts the verif-tagged accessors and the step hook; the driver re-enacts processInput (checked against node.Loop by C16); programs stay inside the fragment of DESIGN.md 5.3.",
 },
 "C13": {
  "level": "exploration",
  "technique": SIM + "operation histories on the real TLexer against a fresh-scan model; real combinators over a simulated call-recording lexer with injected lexer errors and premature end of input, against an ordered-choice reference recogniser",
  "text": "Part A: random legal interleavings of Next/Snapshot/Rollback/Commit on the real transactional lexer (inputs include rejected characters so cached error entries are replayed) compared after every operation with a fresh scan. Part B: random parsers built from all 13 combinators run over a simulated RollbackLexer that records every call and injects lexer errors / early end of tokens; outcome and final position must equal the reference recogniser's, snapshots must be closed exactly once in LIFO order; B2 runs the same parser over the real TLexer and the simulated lexer and requires identical call traces. Sampling, not proof.",
  "ref": "6.C13",
  "note": "The fresh non-transactional scan is trusted (C14's business). Choose ends with an Ok() gate and repetition gates consume, as the package documents. The grammar in parser.go is not re-run on the simulated lexer.",
 },
 "C17": {
  "level": "exploration",
  "technique": SIM + "stdin delivery schedules (chunking, EOF position, transient errors) behind a stream seam, plus the built binary on file and pipe stdin; built-in contracts against the reference model",
  "text": "read(): the simulator owns the byte source and delivers L1..Ln under seeded chunk schedules (cuts inside lines, many lines per chunk, 1-byte chunks, lines and chunks >= 4096 bytes, unterminated tail, transient error at a line boundary) while reads are issued from top level, nested calls, loop bodies, generators and zips; the i-th read must return Li, exhaustion must be a runtime error. 1 run in 40 repeats through cmd/calc with file and pipe stdin. The pure clauses (toa/write, aton round trip routed through stdin, fromto/elems/indices, wrong argument types/counts) are asserted against the model: that part is ordinary assertion, not schedule search.",
  "ref": "6.C17",
  "note": "Both newline conventions of read() are accepted (the Readme is silent). I/O errors are injected at line boundaries only.",
 },
 "C18": {
  "level": "exploration",
  "technique": SIM + "interleaved memory-operation histories over parent, forked and recycled memories against a model, allocation boundaries crossed by drawn widths/depths; wide-frame/deep-recursion programs with closed-form results",
  "text": "Part A drives the real memory package through the VM's call/return/fork/recycle protocol with widths, depths and scratch heights drawn around every allocation boundary, comparing every value read with a trivial model. Part B runs calc functions with up to 300 locals whose middle section grows the stack, forks into recycled contexts, nests wide calls and resumes generators, then returns all locals (closed form), and recursion to 20000/100000 frames. Sampling, not proof.",
  "ref": "6.C18",
  "note": "Part A replaces the VM by the harness issuing the memory calls the VM would issue; legality restrictions are listed in the evidence assumptions (e.g. children destroyed before the forking frame returns, as RCONT/DCONT do).",
 },
}
