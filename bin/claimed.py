CLAIMED = {
 "C09": {
  "level": "exploration",
  "technique": "deterministic simulation: seeded session histories with injected aborts, conservation invariant after every statement, n-vs-2n twin sessions",
  "text": "Seeded search over session histories (every statement form in discarded/used/returning position, loops, generators, cancellations by return, data-driven errors and injected aborts at the k-th fallible instruction): after every statement sp, frame depth, closure depth, live contexts and main ip must be at rest; twin sessions running the same stateless loop body n and 2n times must reach the same maximum sp and stack length. Sampling, not proof.",
  "ref": "6.C09",
  "note": "Trusts the verif-tagged accessors and the step hook; the driver re-enacts processInput (checked against node.Loop by C16); programs stay inside the fragment of DESIGN.md 5.3.",
 },
}
